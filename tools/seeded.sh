#!/bin/bash
# usage: tools/seeded.sh <seeded-dir> <demo-pkg-dir> <Cnn> [Cnn...]
# 1. confirms the change in a scratch worktree: builds, existing suite passes, demo fails with / passes without
# 2. applies it to /repo, runs the given checks (quick), and undoes it straight afterwards
set -u
SD=$(readlink -f "$1"); PKG="$2"; shift 2
export GOFLAGS=-mod=mod GOPROXY=off
if [ -z "${SKIP_CONFIRM:-}" ]; then
WT=$(mktemp -d /tmp/seedchk-XXXXXX)
git -C /repo worktree add -q --detach "$WT" HEAD || exit 2
cleanup() { git -C /repo worktree remove --force "$WT" >/dev/null 2>&1; rm -rf "$WT"; }
trap cleanup EXIT
( cd "$WT" && git apply "$SD/patch.diff" ) || { echo "CONFIRM: patch does not apply"; exit 2; }
( cd "$WT" && go build ./... ) || { echo "CONFIRM: does not compile"; exit 2; }
if ( cd "$WT" && go test -vet=off -count=1 ./... >/tmp/seedchk-$(basename $SD)-suite.log 2>&1 ); then echo "CONFIRM: existing suite passes with the change"; else echo "CONFIRM: existing suite FAILS with the change"; grep -v "^ok\|no test files" /tmp/seedchk-$(basename $SD)-suite.log | tail -15; exit 2; fi
for f in "$SD"/*_test.go; do [ -e "$f" ] && cp "$f" "$WT/$PKG/"; done
if ( cd "$WT" && go test -vet=off -count=1 -run 'Seeded|seeded|Demo' ./$PKG/ >/tmp/seedchk-$(basename $SD)-demo1.log 2>&1 ); then echo "CONFIRM: demo PASSES with the change (expected fail)"; exit 2; else echo "CONFIRM: demo fails with the change"; fi
( cd "$WT" && git apply -R "$SD/patch.diff" )
if ( cd "$WT" && go test -vet=off -count=1 -run 'Seeded|seeded|Demo' ./$PKG/ >/tmp/seedchk-$(basename $SD)-demo2.log 2>&1 ); then echo "CONFIRM: demo passes without the change"; else echo "CONFIRM: demo FAILS without the change"; tail -15 /tmp/seedchk-$(basename $SD)-demo2.log; exit 2; fi
cleanup; trap - EXIT
fi
# against /repo itself (default), or - SEEDED_WT=1 - against a scratch worktree with the change applied, which
# leaves /repo alone so that several changes can be judged at once and background runs on /repo are not disturbed
if [ -n "${SEEDED_WT:-}" ]; then
  WT2=$(mktemp -d /tmp/seedrun-XXXXXX)
  git -C /repo worktree add -q --detach "$WT2" HEAD || exit 2
  ( cd "$WT2" && git apply "$SD/patch.diff" ) || exit 2
  RD=$(mktemp -d /tmp/seedreplay-XXXXXX)
  for P in "$@"; do
    VERIF_REPO="$WT2" VERIF_NO_EVIDENCE=1 VERIF_REPLAY_DIR="$RD" /verif/check "$P" > /tmp/seedchk-$(basename $SD)-$P.log 2>&1
    rc=$?
    echo "CHECK $P on seeded tree: exit $rc :: $(grep -m1 '  rule ' /tmp/seedchk-$(basename $SD)-$P.log | cut -c1-260)"
    if [ $rc -eq 1 ]; then f=$(ls $RD/$P-*.json 2>/dev/null | head -1); [ -n "$f" ] && cp "$f" "$SD/replay-$P.json"; fi
  done
  git -C /repo worktree remove --force "$WT2" >/dev/null 2>&1; rm -rf "$WT2" "$RD"
  exit 0
fi
if ! git -C /repo diff --quiet; then echo "/repo is dirty"; exit 2; fi
git -C /repo apply "$SD/patch.diff" || exit 2
RD=$(mktemp -d /tmp/seedreplay-XXXXXX)
for P in "$@"; do
  VERIF_NO_EVIDENCE=1 VERIF_REPLAY_DIR="$RD" /verif/check "$P" > /tmp/seedchk-$P.log 2>&1
  rc=$?
  echo "CHECK $P on seeded tree: exit $rc :: $(grep -m1 '  rule ' /tmp/seedchk-$P.log | cut -c1-260)"
  if [ $rc -eq 1 ]; then f=$(ls $RD/$P-*.json 2>/dev/null | head -1); [ -n "$f" ] && cp "$f" "$SD/replay-$P.json"; fi
done
git -C /repo checkout -- .
rm -rf "$RD"
git -C /repo status --short | head -3
