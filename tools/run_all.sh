#!/bin/bash
# usage: tools/run_all.sh quick|thorough [seed] [Cnn ...]   - runs every claimed check (or the listed ones, in that order), prints a summary
TIER=${1:-quick}; SEED=${2:-1}; shift; shift
cd "$(dirname "$0")/.."
props=$(python3 -c "import json;print(' '.join(c['property_id'] for c in json.load(open('MANIFEST.json'))['checks']))")
[ $# -gt 0 ] && props="$*"
rc_all=0
for p in $props; do
  start=$(date +%s)
  VERIF_SEED=$SEED ./check $p --tier $TIER > /tmp/run_all_${TIER}_${SEED}_$p.log 2>&1
  rc=$?
  end=$(date +%s)
  echo "$p tier=$TIER seed=$SEED exit=$rc $((end-start))s :: $(grep -v '^KNOWN-FINDING' /tmp/run_all_${TIER}_${SEED}_$p.log | grep -m1 'tier=' | cut -c1-160)"
  if [ $rc -ne 0 ]; then rc_all=1; grep -v '^KNOWN-FINDING' /tmp/run_all_${TIER}_${SEED}_$p.log | tail -25 | cut -c1-400; fi
done
exit $rc_all
