#!/usr/bin/env python3
"""Regenerates /verif/MANIFEST.json from the table below (kept valid at all times)."""
import json, os, subprocess
V = os.path.dirname(os.path.dirname(os.path.abspath(__file__)))
props = [json.loads(l) for l in open(os.path.join(V, "properties.jsonl"))]

# property -> (category, technique, level text, level note)
CLAIMED = {
 "C02": ("exploration", "deterministic simulation: seeded operation histories vs reference model, full-state diff per step",
         "Seeded search over histories of every Store operation on memory and SQLite under a simulated clock; after every step the full listing is diffed against an executable reference model (QueueModel) that encodes the documented state machine; only the freedoms the contract leaves open (dequeue choice, sweep/prune timing, eviction ties, generated ids) are adopted from the observation.",
         "trusted: the reference model sim/model.go (written from the property text and docs), Go toolchain, modernc SQLite; Postgres not executed; sampling, not proof"),
 "C03": ("exploration", "deterministic simulation: multi-consumer dequeue histories vs reference model (lease exclusivity invariant per dequeue)",
         "Dequeue-heavy seeded histories with clock advances across lease boundaries on both backends; every dequeued item must have been offerable at that instant in the model (not held by an unexpired lease, due, queued), carry a never-seen lease id and attempt+1.",
         "store-level part: operations are interleaved at operation granularity (each Store call is atomic under the store mutex / single pooled connection); trusted: sim/model.go"),
 "C04": ("exploration", "deterministic simulation: stale/foreign lease presentation histories vs reference model",
         "Every lease id ever issued (plus blank, unknown, duplicated-in-batch ids) is presented again after expiry, re-lease, cancel/requeue and settlement; the answer and the complete post-state must equal the model: effect iff current unexpired lease, otherwise conflict and nothing changes except releasing the expired lease.",
         "store-level part; pull API mapping (409 / idempotent answers) is covered once the W-sys world is registered; trusted: sim/model.go"),
 "C05": ("exploration", "deterministic simulation: controlled-clock dequeue/nack/extend/expiry histories with must/may sets",
         "At every dequeue the result must lie inside the model's may-set and contain at least min(batch, |must-set|) items, where must = queued and due, or lease expired at least 10 ms ago on SQLite (0 on memory); not-before bounds (nack delay, next_run_at) are exact.",
         "trusted: sim/model.go; the 10 ms grace is the bound the property grants SQLite"),
 "C12": ("exploration", "deterministic simulation: enqueue/batch sequences around max_depth vs reference model",
         "Store part: seeded enqueue and batch sequences (duplicate ids, batches larger than the remaining capacity, memory pressure) under both drop policies; admitted only below max_depth, a refusal leaves the listing unchanged, drop_oldest evicts only the oldest queued messages and only as many as are stored.",
         "store-level part (ingress 413/429 clauses come with the W-sys world); histories lifted above max_depth by operator requeue are excluded as the property says; one open known finding (memory eviction order after id reuse)"),
 "C13": ("exploration", "deterministic simulation: lock-step differential run of memory and SQLite backends on one simulated time line",
         "The same seeded program runs on MemoryStore and SQLiteStore; both are checked against the shared contract model and every step's results are compared directly while the abstract states coincide; runs stop at the first legitimate split (choice among ready messages, sweep/prune timing).",
         "Postgres is not executed (no server in the sandbox); the documented memory-only delivered-retention depth rule is kept out of the generated configurations"),
 "C14": ("exploration", "deterministic simulation: operator mutation histories vs reference selection model",
         "Store part: populations with mixed routes/targets/states/timestamps including ties; id lists and filters with absent/contradictory criteria, limits 0/1/>1000, before-cursors on tie timestamps; selection, counts, preview and the untouched remainder must equal the reference.",
         "store-level part (admin HTTP / MCP parsing comes with the W-sys world); trusted: sim/model.go"),
}
CLAIMED.update({
 "C01": ("fault_enumeration", "deterministic simulation: SQLite store on a simulated disk (shim VFS), crashes and disk faults placed at the k-th disk operation, recovery oracle vs reference model with in-doubt forks",
         "Seeded enqueue/batch/dequeue/lease/checkpoint histories on the real SQLiteStore over a shim VFS that models durability (content as of last fsync + unsynced write list). Kill and power-loss crashes (seeded subset of unsynced writes, torn at 512 B) and EIO/ENOSPC/short writes are injected at arbitrary disk operations inside operations. After each restart: the store opens, integrity_check is ok, counters equal rows, the listing equals the model where acknowledged operations are certain and the one in flight is in doubt (all or nothing), and with faults off every unsettled message is offered again.",
         "store-level (the ingress 202 / publish 200 ordering part joins when the W-sys crash world is registered); create/delete/truncate are modelled as durable at once; trusted: sim/model.go, the VFS shim (sim/simdisk.go)"),
 "C08": ("exploration", "deterministic simulation: generated configs and mutated signed requests through the real ingress wiring vs independent acceptance predicate",
         "Routes with basic / HMAC (inline and rotating secret_ref versions, custom header names, tolerances) / forward auth built by the real startServers/loadAuth wiring; valid requests and systematic mutations; forward-auth service behaviours injected by the simulated network (2xx, 401/403, other statuses, refused, reset, hang). Oracle: independent predicate (sim/sysref.go) -> admissible status set; anything enqueued was authenticated; every rejection leaves the listing untouched.",
         "input sampling through the real wiring under a simulated clock/network; trusted: sim/sysref.go"),
 "C09": ("exploration", "deterministic simulation: replay histories at tolerance-window edges, with reloads, vs at-most-once oracle",
         "HMAC routes with a small nonce pool; captured requests are resent byte for byte at arrival times at and around ts+-tolerance (simulated clock on whole-second boundaries so that now == ts+tol is reached), after invalid requests carrying the nonce, and after configuration reloads of several kinds. Oracle: per (route, nonce, signed timestamp) at most one 202 during the life of the node.",
         "a node restart ends the life (replays across restarts are not counted); one open known finding (reload that raises the tolerance after the entry was purged)"),
 "C10": ("exploration", "deterministic simulation: generated route tables x generated requests through the real wiring vs independent resolver",
         "Generated configurations (1-5 routes in all three channel types, overlapping paths, match blocks) and requests (dot segments, trailing slashes, host case/port/trailing dot, v4/v6/v4-mapped remotes), with reloads in between; the independent resolver written from docs/configuration.md decides route / 404 / 405+Allow; enqueued route and targets must equal the resolved route's and nothing else may change.",
         "apart from the reload instant there is no schedule or fault in this property: the deciding ingredient is seeded sampling of configs x requests against an independent reference, executed through the real startServers wiring"),
})
CLAIMED["C12"] = (CLAIMED["C12"][0], CLAIMED["C12"][1] + "; ingress part: 413/429/503 through the real handler vs window characterisation of the token bucket",
                  CLAIMED["C12"][2] + " Ingress part: bodies and header sets around max_body/max_headers (413); arrival-time sequences at route-level and global limiters checked against the exact window characterisation (admitted iff count <= burst + rps x window for every window; windows cut at reloads); queue_limits through ingress incl. partial fan-out.",
                  "histories lifted above max_depth by operator requeue are excluded as the property says; one open known finding (memory eviction order after id reuse)")
CLAIMED.update({
 "C06": ("exploration", "deterministic simulation: real PushDispatcher/HTTPDeliverer over a simulated network with scripted target behaviour, workers scheduled as tasks; per-delivery classification oracle, backoff bounds, bounded liveness",
         "Deliver routes (1-3 targets, concurrency 1-4, generated retry settings) on both backends; targets answer from scripts (status 100-599 biased to boundaries, refused, reset, response lost, hang to the deadline, DNS failure, recovery after failures). Dispatcher workers are adopted as tasks and run sequentially or interleaved at the network points, with stalls that let leases expire mid-delivery. Every store call of the dispatcher is observed: each recorded attempt must match the independent classification table, each settlement its recorded outcome, nack delays lie in [d(1-j), d(1+j)], sends per cycle <= max+1, one attempt record per delivery, and after faults stop every message ends delivered or dead.",
         "jitter comes from the global math/rand source re-seeded per program (go:debug randseednop=0); the dispatcher's 200 ms real sleep after a dequeue error is not reached (no store faults in this world); trusted: sim/sys_dispatch.go reference table"),
 "C07": ("exploration", "deterministic simulation: byte/headers comparison at every observation point (ingress store, pull HTTP base64, Worker API bytes, push request) across redeliveries",
         "Payloads with NUL, 0xFF, invalid UTF-8, CRLF, sizes around max_body; header sets with repeated names, mixed case, Authorization/Proxy-Authorization/Cookie, forward-auth copy_headers. Stored message = accepted body and the reference header rule (ingress world); payload_b64 / bytes and headers on every pull dequeue incl. redeliveries (pull world); body and stored headers received by push targets across retries (dispatcher world).",
         "byte-exactness itself is input generation; the simulator contributes 'across retries, redeliveries, both transports, both backends'; restart is covered for the store (C01)"),
 "C11": ("exploration", "deterministic simulation: token variants on every Pull/Worker/Admin operation through the real wiring vs reference allowlist rule, with token rotation by reload",
         "Configurations with global tokens, per-route overrides, admin tokens or none; callers with no header, wrong scheme, empty, prefix/suffix/case variants, another route's token, several values (gRPC metadata); HTTP handler from startServers, Worker API methods with metadata context, Admin listing; unauthorised => 401/Unauthenticated and the listing unchanged; authorised callers are never rejected.",
         "gRPC wire transport not exercised (Worker API methods are called directly with a metadata context; its three wiring assignments are replicated in app/verif_export.go); input sampling through the real wiring"),
 "C16": ("exploration", "deterministic simulation: generated egress policies x URLs x resolver behaviour through the real deliverer and net/http redirect logic vs independent policy predicate on the transport log",
         "Every request that reaches the simulated network, including each redirect hop, must be allowed by the independent predicate under the addresses the resolver returned for that check; a denied delivery sends nothing, gets one attempt record and is dead-lettered as policy_denied without retry.",
         "the address-class table itself is input sampling; the simulator adds redirect chains, resolver answers changing over time and the dispatcher's reaction"),
 "C17": ("exploration", "deterministic simulation: signatures recomputed independently from received requests while the simulated clock crosses secret validity windows; inbound acceptance per signed timestamp",
         "Push part: signed targets with inline secrets or secret_ref versions (overlapping, adjacent, tied valid_from), both selection modes; HMAC recomputed from the request the target received; no valid version => nothing reaches the transport. Inbound part: accepted iff signed with a version valid at the signed timestamp.",
         "window boundaries are hit at whole seconds of the simulated clock (the signed timestamp has second resolution)"),
})
CLAIMED.update({
 "C18": ("fault_enumeration", "deterministic simulation: exhaustive crash-point x post-crash-image enumeration of the config-file replacement over a simulated file system; failed-reload probe twins; reload/request interleaving at every statement with a twin oracle",
         "(c) W-file, exhaustive: app and mcp writeFileAtomic (and mcp rollback) with os calls rerouted to verifos: a crash before every call x every post-crash image (kill; power loss with any prefix of unsynced directory operations, unsynced data old/new/torn) and EIO/ENOSPC/EACCES at every call; the config path must hold exactly the complete old or new bytes. (a) failed reloads (unreadable, parse, compile, unloadable secret, restart-required) must leave a fixed probe set of requests with identical outcomes. (b) a successful reload interleaved with in-flight requests at every statement of reloadConfig and ServeHTTP (seeded schedules): each outcome must equal the old-configuration or the new-configuration outcome measured on the quiescent node.",
         "one open known finding: the switch is not atomic (F5). The management-API / MCP write_and_reload rollback paths are not driven (admin-proxy mode needs a real dialer); simfs treats directory operations as persisted in order (any prefix)"),
 "C20": ("other", "complete enumeration of the finite gate table against a reference written from the MCP specification, plus simulated-file-system confinement variants",
         "The complete table tool (31 known + 4 unknown) x role x --enable-mutations x --enable-runtime-control x principal (absent/present/blank) is enumerated on the real mcp.Server over in-memory pipes in SQLite mode: tools/list = allowed set, refused calls leave queue listing and config directory unchanged, every mutating call leaves exactly one audit record with all seven fields, a foreign actor is refused; config_apply / management variants (valid write, preview, invalid content, foreign and traversing paths, unknown keys/modes) run over simfs with every touched path logged and the resulting file compiled.",
         "plain enumeration of a finite table, not schedule exploration; MCP admin-proxy mode, write_and_reload and runtime control beyond the gate are not exercised"),
})
CLAIMED.update({
 "C15": ("exploration", "deterministic simulation: generated publish batches with one invalid item of every kind at every position through the real Admin handler vs reference validator and queue model",
         "POST /messages/publish batches (1-12 items) with zero or one invalid item of every kind at every position, request-level faults, every route mode and publish flag, nearly full queues under both drop policies, on both backends; reject => listing unchanged and item_index names the offending item; accept => every item stored exactly once as a queued single-target message, or 503 with nothing stored when the queue model says full.",
         "endpoint-scoped (managed) publish and publish_policy global switches are not generated; disk faults / crashes inside the batch transaction are covered at store level by C01; input sampling through the real wiring"),
})
CLAIMED["C14"] = (CLAIMED["C14"][0], CLAIMED["C14"][1] + "; admin API part through the real handlers",
                  CLAIMED["C14"][2] + " Admin part: the same operations through the Admin HTTP handlers on populations created by publish (id lists with duplicates/unknown ids, filters with state/route/before/limit/preview); request-level rejections change nothing.",
                  "MCP queue tools run the same store calls in SQLite mode and are only gated in C20; trusted: sim/model.go")
CLAIMED["C04"] = (CLAIMED["C04"][0], CLAIMED["C04"][1] + "; Pull/Worker API part: 409/FailedPrecondition mapping and idempotent answers across the simulated 2 min window",
                  CLAIMED["C04"][2] + " Pull API part: leases kept and presented later over HTTP (single and batch) and the Worker API; 204/200 iff current and unexpired, else 409, the only other success being the idempotent answer to a duplicate of an ack/nack that succeeded on this node within its TTL.",
                  "nack and dead share one idempotency key per lease in the pull API (treated as intended, DESIGN Appendix B); trusted: sim/model.go")
CONC = " W-conc: two callers with 1-3 store calls each run concurrently on one SQLite store; every statement of the instrumented SQLiteStore functions is a scheduling point and the seeded choice list (run-length schedules; for 3 in 100 programs every single-preemption schedule) decides who proceeds; a caller waiting for the pooled connection or a mutex is recognised and left alone until it wakes. The recorded history must be linearizable with respect to the store's own sequential behaviour (same results and same final content for some order that respects program order and real-time precedence, re-executed on a fresh database)."
for pid, extra in {
 "C01": " With a kill or power loss at a drawn disk operation, scheduling decision, or the instant the other caller is done: calls that returned before the crash must be reflected after restart, calls in flight may or may not be.",
 "C03": "", "C04": "", "C05": " Crashes in 3 of 10 runs; a state in which every unfinished caller waits for another is reported as a deadlock.",
 "C12": " At max_depth 1-5 under reject and drop_oldest: admission, refusal and eviction of concurrent enqueues equal some sequential order.",
}.items():
    c = CLAIMED[pid]
    CLAIMED[pid] = (c[0], c[1] + "; concurrent callers under a statement-level scheduler, linearizability against sequential re-execution", c[2] + CONC + extra, c[3])
CLAIMED["C03"] = CLAIMED["C03"][:3] + ("store level: sequential histories on both backends, concurrent callers on SQLite (the memory backend holds one mutex for every call, so its calls are atomic); pull handlers and dispatcher workers in their own worlds; trusted: sim/model.go, the store's sequential behaviour as judged by W-store",)
CLAIMED["C01"] = CLAIMED["C01"][:3] + ("store level (W-crash sequential with disk faults, W-conc concurrent with crashes) and node level (syscrash: ingress 202 / publish 200 against a crash at every store-call boundary and disk operation); create/delete/truncate are modelled as durable at once; trusted: sim/model.go, the VFS shim (sim/simdisk.go)",)
CLAIMED["C12"] = CLAIMED["C12"][:3] + ("histories lifted above max_depth by operator requeue are excluded as the property says",)
CLAIMED["C07"] = CLAIMED["C07"][:3] + ("byte-exactness itself is input generation; the simulator contributes 'across retries, redeliveries, both transports, both backends'; restart is covered for the store (C01)",)

c = CLAIMED["C18"]
CLAIMED["C18"] = (c[0], c[1] + "; management-API config mutation enumerated over simfs; Pull API dequeues among the interleaved probes",
    c[2] + " (d) W-mgmt, exhaustive: PUT/DELETE of an application/endpoint mapping through the real Admin handler (mutateManagedEndpointConfig -> writeFileAtomic -> reloadConfig -> rollback) with EIO/ENOSPC/EACCES at every os call, a crash before every call x every post-crash image, and the reload's read failing followed by a crash before every later call: the file is always the complete old or new content, the new content compiles, a 2xx answer means file and running configuration are new, a refused mutation whose reload failed has the previous content back and the running mapping unchanged. The atomic world also interleaves Pull API dequeues (tokens and endpoint paths of both configurations) with the reload.",
    "two open known findings with one root cause: the switch is not atomic for ingress requests (F5) nor for Pull API requests (F5b: authorised under the old endpoint binding, served from the new one). MCP write_and_reload (admin-proxy mode needs a real dialer) is not driven; simfs treats directory operations as persisted in order (any prefix)")
c = CLAIMED["C05"]
CLAIMED["C05"] = (c[0], c[1] + "; W-crash histories judged for redelivery after restarts", c[2] + " Crash/restart part: the W-crash histories (SQLiteStore on the simulated disk, crashes and disk faults at the k-th disk operation) are judged with the same must/may rule after every restart, and after the last restart with faults off every unsettled message has to be offered again.", c[3])
c = CLAIMED["C07"]
CLAIMED["C07"] = (c[0], c[1] + "; listing after crash recovery", c[2] + " Restart part: payload bytes and header maps of every message listed after a crash recovery (W-crash) equal what was enqueued.", c[3])

# ---- extensions of the second build session (DESIGN.md 10.7) ----
def ext(pid, tech="", text="", note=None):
    c = CLAIMED[pid]
    CLAIMED[pid] = (c[0], c[1] + tech, c[2] + text, c[3] if note is None else note)

CONC2 = " W-conc also runs on the memory backend (3 in 10 programs; every statement of the exported MemoryStore methods is a scheduling point, a caller waiting for the store mutex is recognised as blocked) and, on SQLite, with one handle per caller on the one database file (3 in 10 programs: a second process such as hookaido mcp; scheduling points before every SQL-running statement of every SQLiteStore method, never inside a write transaction)."
ext("C01", "; process death inside the very first start and inside batches of hundreds of messages; Pull API duplicate requests in flight at once with process death between their statements",
    " W-crash also places faults inside the very first start (file creation, schema migration: the next start must succeed) and inside batches of 129-300 messages. syscrash: the same single-lease ack/nack is sent two or three times at once (a consumer retrying while its first attempt is in flight), every statement of the Pull API handlers and both sides of the store calls are scheduling points, the process dies at a drawn decision, at the instant one request has been answered while another is in flight, or at a disk operation: a 204 written before the death is certain after restart." + CONC2.replace(" W-conc also runs on the memory backend (3 in 10 programs; every statement of the exported MemoryStore methods is a scheduling point, a caller waiting for the store mutex is recognised as blocked) and, on SQLite,", " W-conc also runs"))
ext("C03", "; dispatcher workers: the lease asked for covers a whole sequential micro-batch",
    CONC2 + " Dispatcher part: single-target routes with concurrency 2-6 (micro-batches of up to 4 leases per worker), targets that hang to the deadline or answer just inside it, worker cycles sequential and interleaved: every message a worker's dequeue returns was offerable in the model, and unless the simulator stalled the worker every delivery starts and is settled before the worker's own lease runs out.",
    "store level: sequential histories on both backends, concurrent callers on both backends and across two handles; pull handlers and dispatcher workers in their own worlds; trusted: sim/model.go, the store's sequential behaviour as judged by W-store")
ext("C04", "", CONC2)
ext("C05", "", CONC2 + " The store generator mixes in groups of steps that belong together (several leases outstanding with different expiries and polls between, at and after them; a lease that is extended and polled around both expiries).")
ext("C12", "", CONC2)
ext("C06", "; store faults at drawn points of the delivery cycle",
    " Store faults: single calls of the dispatcher (batch and single settlements, attempt records) are refused by the store at drawn points; every recorded delivery outcome still reaches the store through a settlement call unless the call of last resort was itself refused.",
    "jitter comes from the global math/rand source re-seeded per program (go:debug randseednop=0); Dequeue errors are not injected (the dispatcher answers them with a real 200 ms sleep); trusted: sim/sys_dispatch.go reference table")
ext("C07", "", " Requests are built from wire text and also sent with Transfer-Encoding: chunked (no declared length), with size limits drawn.")
ext("C08", "; failed reloads with unloadable secrets (fail closed)",
    " Basic routes with two users are probed with one user's name and the other's password. Fail-closed under secret-loading faults: a reload whose inline secret, named secret version or route pull token cannot be loaded must be refused and the probe requests and API authorisation behave exactly as before.")
ext("C09", "; reload alongside concurrent duplicates",
    " Two in three programs end with two or three requests served at once (usually the same signed request), every statement of ServeHTTP, HMACAuth.Verify and the nonce cache being a scheduling point; in a third of those a reload (of a file that differs by a comment) runs as one more task, with points in reloadConfig and loadAuth, and the captured requests are sent again afterwards.")
ext("C10", "", " Named matchers (@name blocks attached singly, in pairs and in threes, with and without a match block of the route's own, lists of three entries) are part of the generated configurations; requests aim at every position of host, method and remote_ip lists.")
ext("C11", "", " Configurations without a global allowlist are generated too: a configuration (at start or by reload) that would leave a pull route with an empty effective allowlist must be refused.")
ext("C15", "; batches under crash and disk faults at store level",
    " After a 2xx every item of the batch is in the queue exactly once (checked on the listing, independently of the queue model); request bodies are also sent chunked. Crash part (W-crash): batches of 1-4 and of 129-300 messages with a kill, power loss or disk error at a drawn disk operation inside the batch: afterwards the batch is there completely or not at all.",
    "endpoint-scoped (managed) publish and publish_policy global switches are not generated; the crash part drives EnqueueBatch directly (the call a publish makes), not the HTTP handler; input sampling through the real wiring")
ext("C18", "", " Failed reloads include an unloadable named secret version and an unloadable route pull token.")
ext("C20", "", " Eight names that differ from a tool's name by surrounding white space only are called with the arguments of the tool they resemble: each is either refused as unknown without effect, or held to that tool's gate and audit duties.")

# later in the second session
PUSHCRASH = " Push path under process death (dispatchcrash world): deliver routes on SQLite over the simulated disk, a kill or power loss at the k-th disk operation inside a worker's dequeue / attempt record / settlement or inside a publish, and between steps; a fresh node with a new dispatcher starts on the image: every message that was stored is still there (queued, leased by the dead process, dead-lettered) or one of its deliveries was answered with 2xx, nothing else appears, leases of the dead process expire on the simulated clock, and after the faults stop every message ends delivered or dead."
ext("C01", "; push path under process death; another process opening and closing the database between operations", PUSHCRASH + " W-crash also lets a second process open the database file, list and close again between operations (hookaido mcp does so for every tool call).")
ext("C05", "; push path under process death", PUSHCRASH)
ext("C06", "; push path under process death", PUSHCRASH)
ext("C07", "; store histories with DLQ requeue, cancel/resume", " Store part: header-carrying messages through redelivery after nack and expiry, dead-lettering and DLQ requeue, cancel and resume, by id and by filter, on both backends; payload, headers and trace of every listed and every dequeued message equal what was enqueued.")
ext("C11", "; management mutation on top of an unreloaded operator edit", " W-mgmt variant: the file holds an operator's edit that nobody has reloaded (rotated global token, new route with tokens of its own) when a management mutation arrives; with a fault at every os call; after a 2xx the Pull API honours exactly the token lists the file declares.")
ext("C14", "; operator mutations against concurrent worker calls (W-conc)", " Concurrency part (W-conc, one handle and two handles on the one file): by-id and by-filter cancel / requeue / resume of one caller interleaved statement by statement with dequeues and settlements of the other; a by-filter call counts as a selection followed by the id-based operation on what was selected, which the other caller may separate; results and final content must equal some order of those steps.")
ext("C20", "", " config_apply write_and_reload whose reload cannot be verified (admin token of the submitted content cannot be loaded by the mcp process; the failure precedes any probe, no network is touched): the previous file must be back.")

ext("C03", "", " Pull API part: nack / dead / extend also over the Worker API; a consumer that keeps its lease alive by repeated extends while a second consumer polls just before the deadline the extends add up to.")
ext("C04", "; duplicates of one ack/nack in flight at once over HTTP", " Pull API race step: two or three copies of one ack / nack in flight at once, of recent and of older (stale) leases, every statement of the Pull API handlers and both sides of the store calls being scheduling points: a stale lease with no earlier success gets 409 from everybody, a current lease is settled once and somebody is told.")
ext("C05", "; dispatcher retry delays per message", " Dispatcher part: every retry nack the dispatcher issues (batched settlements of micro-batches included) carries the delay its own message's attempt calls for.")
ext("C10", "", " Reloads change the route table (a route drawn afresh with new match criteria, removed, added, moved) between requests.")
ext("C12", "", " Forward-auth routes with copy_headers are part of the ingress profile: long copied values, also overriding a header the client sent, around max_headers.")
ext("C15", "; endpoint-scoped publish", " Managed routes and the endpoint-scoped publish path are generated (selector hints, managed off, unknown endpoint); batches may hold two invalid items of different kinds: the error names the first offending item of the validation phase that failed (body shape over the whole batch, then item by item, then ids already queued).", "publish_policy actor_allow / actor_prefix / fail_closed are not generated (direct, managed, allow_pull_routes, allow_deliver_routes, require_actor, require_request_id are); the crash part drives EnqueueBatch directly (the call a publish makes), not the HTTP handler; input sampling through the real wiring")
ext("C18", "; traffic during a management mutation", " W-mgmt also lets a message arrive on the endpoint's current route after each statement of a management delete / move in turn: a refused call leaves file and running mapping untouched.")

# wave 7
ext("C01", "; write-lock contention from another process", " W-crash also lets another process hold the database write lock for the duration of a store call (SQLITE_BUSY through the VFS lock table; the busy handler's waits cost no real time): the call fails or succeeds as a whole and an answer 'stored' is held against the listing.")
ext("C06", "; messages whose target is no longer configured", " Messages for a target their route no longer has share micro-batches with deliverable ones; the settlements of their batch mates still have to reach the store.")
ext("C07", "; complete header set of every push delivery", " Push part: stored header names in non-canonical form; the complete header set of every delivery equals the message's own headers plus what the gateway adds - no header of another message.")
ext("C11", "; admin tokens appearing / rotating / disappearing by reload", " Reloads add, rotate and remove admin_api tokens; Admin probes after each reload are judged by the configuration in force.")
ext("C13", "; delivery-attempt records", " Delivery-attempt records with caller-supplied ids and times (out of recording order) and their listings (filters, limits) are part of the store and diff worlds: order (created_at desc, id desc) on every backend.")
ext("C14", "; endpoint-scoped by-filter mutations", " Admin world: managed routes and the endpoint-scoped by-filter endpoints with every criterion (state, before cursor, limit, preview).")
ext("C17", "", " Signed targets with percent-escapes, encoded slashes and query strings in their URLs; the signature is recomputed from the request as received.")
ext("C20", "", " A symlink or hard link to the configured file passed as path is refused like any other foreign path; the link and its directory stay untouched.")

# wave 8
ext("C03", "; long-polling consumers", " Long poll (W-conc, SQLite): one caller waits for a message with max_wait 30 s while the other lets time pass and enqueues; the returned lease has to be the one a dequeue at the instant of the successful attempt gives (one reference dequeue per attempt).")
ext("C05", "; long-polling consumers", " Long-polling callers as in C03: a waiting consumer is woken by the enqueue and gets the message, with a lease counted from that instant.")
ext("C05", "; backward steps of the clock", " Store part: the clock the stores read also steps backwards (1 ms - 1 min): nothing is offered before its next_run_at or inside a live lease as the clock now reads, delays count from the clock reading of the call; SQLite's 10 ms sweep bound is suspended until the clock has caught up with the last sweep.")
ext("C09", "; other traffic in volume between original and replay", " A flood of requests with fresh nonces (300-12000) between a request and its replay: the replay is still refused.")
ext("C10", "", " Requests aim at near misses of wildcard host entries (bare domain, longer name without a dot boundary, the domain as a label of another name, trailing dot with port).")
ext("C12", "; requests overtaking one another at the rate limiter", " Ingress races with a moving clock: a request that has read the time is overtaken at the limiter by one that read a later time; limiter times of racers are intervals [time read, instant of passage]; requests after the race see what the race did to the limiter's bookkeeping.")
ext("C15", "", " Unknown targets include near-miss spellings of the route's own targets (letter case, trailing slash, one character more or less).")
ext("C18", "; management mutation on top of an unreloaded restart-required edit", " W-mgmt variant: the file is ahead of the running configuration by an edit that needs a restart; the mutation is refused, the operator's content is back, running behaviour as before.")

# waves 9-11 (third build session)
ext("C06", "; answers whose body breaks off", " Status answers may arrive with status line and headers and a body that ends short of its Content-Length: the classification goes by the status.")
ext("C07", "; awkward header values", " Store, diff and pull worlds store header values with supplementary-plane and private-use runes, U+2028, quotes and backslashes, text that looks like an escape; store and diff worlds also values that are not UTF-8 (recorded finding: SQLite coerces them to U+FFFD).")
ext("C13", "; backlog statistics and awkward header values", " Stats is compared in full (oldest / earliest / age / lag, per-bucket top list) with more than ten backlog buckets; header values as in C07.")
ext("C11", "", " Authorization values in which a valid token is one of several fields (trailing word, trailing second token, trailing scheme, leading word) are refused.")
ext("C16", "", " Resolver answers include the first, last and just-outside addresses of every address class dns_rebind_protection names (IPv4, IPv6, IPv4-mapped).")
ext("C20", "", " Every allowed mutating tool is also called with near misses of the principal as actor (letter case, one character short or more).")
ext("C09", "; expiry out of arrival order", " A staggered-expiry idiom: the nonce of a request signed almost a tolerance ago is used again after it lapsed and replayed while an older-arrived entry lapses.")
ext("C10", "", " Peers appear as IPv4-mapped addresses with port, at the last address of a remote_ip prefix and at the first one past it.")
ext("C15", "; two publishes racing for one id", " Publish world race step: two publishes with one id in common in flight at once under statement-level interleaving: a 2xx publish has all its items once, a refused one none of its own, never two 2xx. Unknown routes include near-miss spellings of configured routes.")
ext("C05", "; store failure and retry on the Pull API", " Pull world faultretry: a nack / ack / dead-letter whose store call fails once is not answered 2xx and changes nothing; the retry settles a lease that is still current (the message comes back with its delay).")
ext("C04", "; store failure and retry on the Pull API", " Pull world faultretry as in C05: the retry of a call whose store operation failed is judged like any call (no success from the idempotency window for something that never happened).")
ext("C18", "", " The os reroute follows calls: file operations moved into helpers reachable from the rewritten functions stay visible to the simulated file system.")
ext("C02", "; concurrent callers", " W-conc (two callers, one and two handles, statement-level interleaving, crashes): results and final rows equal some sequential order of the calls - no interleaving duplicates, revives or illegally moves a message.")
ext("C11", "; refused reloads", " reloadfail world: after a refused reload whose new configuration changes token lists the Pull and Admin APIs honour exactly the running configuration's lists.")
ext("C20", "; failed config writes", " W-file (exhaustive error injection at every file-system call of the config-writing primitive): a write that reported failure leaves nothing but the config file in its directory.")
ext("C16", "", " Resolver outages inside an answer sequence: a check whose lookup fails sends nothing, whatever an earlier lookup of the same host said.")
ext("C17", "", " Validity bounds carry sub-second parts and the clock starts off the whole second, so attempts fall on both sides of a bound within one second.")

NA = {
 "C19": "config Parse/Format/Compile are pure functions of the text: no schedule, clock, I/O or fault for a simulation to decide (DESIGN.md §5)",
}
hooks = subprocess.run(["git", "-C", "/repo", "log", "--format=%h %s"], capture_output=True, text=True).stdout.splitlines()
hook_commits = [l.split()[0] for l in hooks if l.split(" ", 1)[1].startswith("verif")]
m = {
 "version": 1,
 "setup_cmd": "cd /verif && ./check build",
 "hooks": {
  "guard": "verif",
  "enable": "go test -tags verif -overlay <overlay.json generated at check time by /verif/tools/instrument from the current /repo tree> (done by /verif/check)",
  "baseline_off_cmd": "cd /repo && GOFLAGS=-mod=mod go test -json -vet=off -count=1 -timeout 25m ./...",
  "source_commits": hook_commits,
  "add_only": True,
 },
 "engines": [{"name": "hooksim", "path": "/verif/sim", "serves_properties": sorted(CLAIMED),
              "kind_free_text": "deterministic simulation with fault injection: seeded (rapid) programs executed against real hookaido components under a simulated clock/scheduler/disk/network, checked against executable reference models; violations are minimised and written as replayable JSON programs"}],
 "checks": [],
 "notes": "See DESIGN.md. Every check rebuilds from /repo's working tree (instrument -> overlay -> go test -c) and runs worker processes with seeds derived from VERIF_SEED. Exit 2 = harness trouble, never a violation. KNOWN_FINDINGS.json lists recorded defects (open) and repaired ones (fixed).",
 "not_applicable": [],
}
for p in props:
    pid = p["id"]
    if pid in CLAIMED:
        cat, tech, text, note = CLAIMED[pid]
        m["checks"].append({
         "property_id": pid,
         "quick_cmd": f"cd /verif && ./check {pid} --tier quick",
         "thorough_cmd": f"cd /verif && ./check {pid} --tier thorough",
         "evidence_file": f"/verif/evidence/{pid}.json",
         "replay_cmd_template": f"cd /verif && ./check {pid} --replay {{path}}",
         "engine": "hooksim",
         "level_claimed": {"category": cat, "text": text, "design_ref": f"DESIGN.md §4 {pid}"},
         "level_note": note,
         "technique": tech,
        })
    else:
        m["not_applicable"].append({"property_id": pid, "reason": NA.get(pid, "check not built yet in this session (planned: DESIGN.md §4); not claimed until it runs")})
json.dump(m, open(os.path.join(V, "MANIFEST.json"), "w"), indent=1)
print("claimed:", sorted(CLAIMED), "not claimed:", [x["property_id"] for x in m["not_applicable"]])
