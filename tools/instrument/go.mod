module verif/tools/instrument

go 1.23
