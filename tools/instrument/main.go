// instrument generates, from the *current* working tree of the product
// repository, the source rewrites the simulation needs, and writes them as a
// `go build -overlay` file. The repository itself is never modified.
//
//	R1 points      verifhook.Point("<label>") before each statement of listed functions
//	R2 os-reroute  os.X -> verifos.X inside listed functions
//	R3 clock       time.Now/Since/Until -> verifclock.* in listed packages
//
// usage: instrument -repo /repo -out <dir>   (writes <dir>/overlay.json)
// exit 2 on trouble (missing R2 function, parse error); a missing R1 function is reported, not fatal.
package main

import (
	"bytes"
	"encoding/json"
	"flag"
	"fmt"
	"go/ast"
	"go/format"
	"go/parser"
	"go/token"
	"os"
	"path/filepath"
	"sort"
	"strconv"
	"strings"
)

const modPath = "github.com/nuetzliches/hookaido"

// R3: packages whose non-test files get the clock reroute.
var clockPkgs = []string{
	"internal/queue", "internal/ingress", "internal/pullapi", "internal/workerapi",
	"internal/app", "internal/dispatcher", "internal/admin", "internal/mcp", "internal/secrets",
}

// R1: functions that get scheduling points. "dir:Recv.Func" or "dir:Func".
// A trailing "!" means: only before the statement that first acquires the
// pooled DB connection (a task parked while holding it would block all others).
var pointFuncs = []string{
	"internal/ingress:Server.ServeHTTP",
	"internal/ingress:HMACAuth.Verify",
	"internal/ingress:nonceCache.seenOnceAt",
	"internal/ingress:nonceCache.seenOnce",
	"internal/pullapi:Server.ServeHTTP",
	"internal/pullapi:Server.Dequeue",
	"internal/pullapi:Server.AckSingle",
	"internal/pullapi:Server.AckBatch",
	"internal/pullapi:Server.NackSingle",
	"internal/pullapi:Server.NackBatch",
	"internal/pullapi:Server.Extend",
	"internal/dispatcher:PushDispatcher.classifyDelivery",
	"internal/dispatcher:PushDispatcher.applyLeaseActionsBatch",
	"internal/app:reloadConfig",
	"internal/app:mutateManagedEndpointConfig",
	"internal/queue:SQLiteStore.CancelMessagesByFilter",
	"internal/queue:SQLiteStore.RequeueMessagesByFilter",
	"internal/queue:SQLiteStore.ResumeMessagesByFilter",
	"internal/queue:SQLiteStore.withLeaseMutation!",
	"internal/queue:SQLiteStore.enqueueWithLimit!",
	"internal/queue:SQLiteStore.Enqueue",
	"internal/queue:SQLiteStore.EnqueueBatch!",
	"internal/queue:SQLiteStore.Dequeue",
	"internal/queue:SQLiteStore.dequeueOnce!",
	"internal/queue:SQLiteStore.maybePrune",
	"internal/queue:SQLiteStore.withLeaseBatch!",
	"internal/queue:SQLiteStore.withLease!",
	"internal/queue:SQLiteStore.Ack",
	"internal/queue:SQLiteStore.Nack",
	"internal/queue:SQLiteStore.Extend",
	"internal/queue:SQLiteStore.MarkDead",
	"internal/queue:SQLiteStore.CancelMessages",
	"internal/queue:SQLiteStore.RequeueMessages",
	"internal/queue:SQLiteStore.ResumeMessages",
	"internal/queue:SQLiteStore.RequeueDead",
	"internal/queue:SQLiteStore.DeleteDead",
	"internal/queue:SQLiteStore.ListMessages",
	"internal/queue:SQLiteStore.Stats",
	"internal/queue:SQLiteStore.selectMessageIDsByFilter",
	"internal/queue:SQLiteStore.activeDepthCount",
}

// R1 optional: instrumented when present, silently skipped when absent
// (names that differ between versions of the product).
var pointFuncsOptional = []string{
	"internal/queue:MemoryStore.*",
	"internal/app:runtimeState.loadAuth",
	"internal/app:runtimeState.allowIngress",
	"internal/admin:Server.handleMessagesPublish",
	"internal/admin:Server.handleApplicationEndpointPublish",
	"internal/mcp:Server.toolConfigApply",
	"internal/mcp:Server.toolManagementEndpointUpsert",
	"internal/mcp:Server.toolManagementEndpointDelete",
}

// R2: functions whose `os.` selectors are rerouted to verifos.
var osFuncs = []string{
	"internal/app:writeFileAtomic",
	"internal/app:syncDir",
	"internal/app:reloadConfig",
	"internal/app:mutateManagedEndpointConfig",
	"internal/mcp:writeFileAtomic",
	"internal/mcp:syncDir",
	"internal/mcp:rollbackConfigFile",
	"internal/mcp:readExistingFile",
}

type funcKey struct{ dir, name string }

var osMutating = map[string]bool{"CreateTemp": true, "OpenFile": true, "WriteFile": true, "Rename": true, "Remove": true, "Create": true, "Truncate": true, "RemoveAll": true}
var osClosureNames = map[string]bool{"CreateTemp": true, "OpenFile": true, "WriteFile": true, "ReadFile": true, "Rename": true, "Remove": true, "Open": true, "MkdirAll": true, "Stat": true, "File": true}

// osCalleeClosure: names (funcName form) of the functions of the package in absDir that are reachable from an
// R2 function through calls within the package and contain a mutating os call themselves.
func osCalleeClosure(absDir, dir string, roots map[funcKey]bool) []string {
	ents, err := os.ReadDir(absDir)
	if err != nil {
		return nil
	}
	decls := map[string]*ast.FuncDecl{}
	byMethod := map[string][]string{}
	for _, e := range ents {
		name := e.Name()
		if e.IsDir() || !strings.HasSuffix(name, ".go") || strings.HasSuffix(name, "_test.go") || strings.HasPrefix(name, "verif_") {
			continue
		}
		f, err := parser.ParseFile(token.NewFileSet(), filepath.Join(absDir, name), nil, 0)
		if err != nil {
			continue
		}
		for _, d := range f.Decls {
			if fd, ok := d.(*ast.FuncDecl); ok && fd.Body != nil {
				n := funcName(fd)
				decls[n] = fd
				if i := strings.Index(n, "."); i > 0 {
					byMethod[n[i+1:]] = append(byMethod[n[i+1:]], n)
				}
			}
		}
	}
	seen := map[string]bool{}
	var queue []string
	for k := range roots {
		if k.dir == dir && decls[k.name] != nil {
			seen[k.name] = true
			queue = append(queue, k.name)
		}
	}
	sort.Strings(queue)
	var out []string
	for len(queue) > 0 {
		n := queue[0]
		queue = queue[1:]
		ast.Inspect(decls[n].Body, func(x ast.Node) bool {
			ce, ok := x.(*ast.CallExpr)
			if !ok {
				return true
			}
			var cands []string
			switch fn := ce.Fun.(type) {
			case *ast.Ident:
				cands = []string{fn.Name}
			case *ast.SelectorExpr:
				if ms := byMethod[fn.Sel.Name]; len(ms) == 1 {
					cands = ms
				}
			}
			for _, c := range cands {
				if decls[c] != nil && !seen[c] {
					seen[c] = true
					queue = append(queue, c)
				}
			}
			return true
		})
	}
	for n := range seen {
		if roots[funcKey{dir, n}] {
			continue
		}
		// ... or takes / returns / holds an os.File (a helper that is handed the temp file of an R2 function)
		mut := false
		ast.Inspect(decls[n], func(x ast.Node) bool {
			if se, ok := x.(*ast.SelectorExpr); ok && isPkgIdent(se.X, "os") && (osMutating[se.Sel.Name] || se.Sel.Name == "File") {
				mut = true
			}
			return !mut
		})
		if mut {
			out = append(out, n)
		}
	}
	sort.Strings(out)
	return out
}

func parseKeys(list []string) (map[funcKey]bool, map[funcKey]bool) {
	m := map[funcKey]bool{}
	connOnly := map[funcKey]bool{}
	for _, s := range list {
		only := strings.HasSuffix(s, "!")
		s = strings.TrimSuffix(s, "!")
		i := strings.Index(s, ":")
		k := funcKey{s[:i], s[i+1:]}
		m[k] = true
		if only {
			connOnly[k] = true
		}
	}
	return m, connOnly
}

func fail(format string, a ...any) {
	fmt.Fprintf(os.Stderr, "instrument: "+format+"\n", a...)
	os.Exit(2)
}

func funcName(fd *ast.FuncDecl) string {
	if fd.Recv == nil || len(fd.Recv.List) == 0 {
		return fd.Name.Name
	}
	t := fd.Recv.List[0].Type
	if st, ok := t.(*ast.StarExpr); ok {
		t = st.X
	}
	if ix, ok := t.(*ast.IndexExpr); ok {
		t = ix.X
	}
	if id, ok := t.(*ast.Ident); ok {
		return id.Name + "." + fd.Name.Name
	}
	return fd.Name.Name
}

func isPkgIdent(e ast.Expr, name string) bool {
	id, ok := e.(*ast.Ident)
	return ok && id.Name == name && id.Obj == nil
}

type rewriter struct {
	usedClock, usedOS, usedPoint bool
}

// rerouteSelectors rewrites pkg.Sel -> newPkg.Sel for selected names (all when names==nil).
func rerouteSelectors(n ast.Node, pkg, newPkg string, names map[string]bool) int {
	count := 0
	ast.Inspect(n, func(x ast.Node) bool {
		se, ok := x.(*ast.SelectorExpr)
		if !ok {
			return true
		}
		if !isPkgIdent(se.X, pkg) {
			return true
		}
		if names != nil && !names[se.Sel.Name] {
			return true
		}
		se.X = &ast.Ident{Name: newPkg, NamePos: se.X.Pos()}
		count++
		return true
	})
	return count
}

func usesPkg(f *ast.File, pkg string) bool {
	used := false
	ast.Inspect(f, func(x ast.Node) bool {
		if se, ok := x.(*ast.SelectorExpr); ok && isPkgIdent(se.X, pkg) {
			used = true
		}
		return !used
	})
	return used
}

func containsConnAcquire(n ast.Node) bool {
	found := false
	ast.Inspect(n, func(x ast.Node) bool {
		if _, ok := x.(*ast.FuncLit); ok {
			return false
		}
		ce, ok := x.(*ast.CallExpr)
		if !ok {
			return true
		}
		se, ok := ce.Fun.(*ast.SelectorExpr)
		if !ok || se.Sel.Name != "Conn" {
			return true
		}
		inner, ok := se.X.(*ast.SelectorExpr)
		if ok && inner.Sel.Name == "db" {
			found = true
		}
		return !found
	})
	return found
}

type pointInserter struct {
	prefix    string
	n         int
	labels    *[]string
	recv      string // receiver name of the method being instrumented
	dn        int
	mapFields map[string]bool // names of struct fields of map type (package-wide, by name)
	mapLocals map[string]bool // local variables of the function that hold maps
}

// localMaps collects identifiers of fd that are assigned make(map...) or a map
// literal, or declared / received with a map type.
func localMaps(fd *ast.FuncDecl) map[string]bool {
	out := map[string]bool{}
	isMapExpr := func(e ast.Expr) bool {
		switch v := e.(type) {
		case *ast.CompositeLit:
			_, ok := v.Type.(*ast.MapType)
			return ok
		case *ast.CallExpr:
			if id, ok := v.Fun.(*ast.Ident); ok && id.Name == "make" && len(v.Args) > 0 {
				_, ok := v.Args[0].(*ast.MapType)
				return ok
			}
		}
		return false
	}
	if fd.Type.Params != nil {
		for _, f := range fd.Type.Params.List {
			if _, ok := f.Type.(*ast.MapType); ok {
				for _, n := range f.Names {
					out[n.Name] = true
				}
			}
		}
	}
	ast.Inspect(fd, func(x ast.Node) bool {
		switch v := x.(type) {
		case *ast.AssignStmt:
			for i, r := range v.Rhs {
				if i < len(v.Lhs) && isMapExpr(r) {
					if id, ok := v.Lhs[i].(*ast.Ident); ok {
						out[id.Name] = true
					}
				}
			}
		case *ast.ValueSpec:
			if _, ok := v.Type.(*ast.MapType); ok {
				for _, n := range v.Names {
					out[n.Name] = true
				}
			}
			for i, r := range v.Values {
				if i < len(v.Names) && isMapExpr(r) {
					out[v.Names[i].Name] = true
				}
			}
		}
		return true
	})
	return out
}

// mapRange: the ranged-over expression is (as far as syntax tells) a map: a
// struct field declared with a map type anywhere in the package, or a local
// variable made with make(map...) / a map literal in the same function.
func (p *pointInserter) mapRange(x ast.Expr) bool {
	switch e := x.(type) {
	case *ast.SelectorExpr:
		return p.mapFields[e.Sel.Name]
	case *ast.Ident:
		return p.mapLocals[e.Name]
	case *ast.CompositeLit:
		_, ok := e.Type.(*ast.MapType)
		return ok
	}
	return false
}

// dbTouching: the statement contains (outside function literals) a call on the
// pinned connection / transaction / pool, or a call of another method of the
// store - i.e. it may run SQL. Used for the "#d" points, which exist where a
// caller may hold the pooled connection: between two such statements another
// process (a second handle on the file) can commit.
func (p *pointInserter) dbTouching(n ast.Node) bool {
	found := false
	ast.Inspect(n, func(x ast.Node) bool {
		if found {
			return false
		}
		if _, ok := x.(*ast.FuncLit); ok {
			return false
		}
		ce, ok := x.(*ast.CallExpr)
		if !ok {
			return true
		}
		se, ok := ce.Fun.(*ast.SelectorExpr)
		if !ok {
			return true
		}
		switch b := se.X.(type) {
		case *ast.Ident:
			switch {
			case b.Name == "conn" || b.Name == "tx":
				found = true
			case p.recv != "" && b.Name == p.recv:
				name := se.Sel.Name
				if !strings.HasPrefix(name, "observe") && name != "now" && name != "nowFn" && !strings.HasPrefix(name, "record") {
					found = true
				}
			}
		case *ast.SelectorExpr:
			if id, ok := b.X.(*ast.Ident); ok && p.recv != "" && id.Name == p.recv && b.Sel.Name == "db" {
				found = true
			}
		}
		return !found
	})
	return found
}

func (p *pointInserter) stmtD() ast.Stmt {
	p.dn++
	label := p.prefix + "#d" + strconv.Itoa(p.dn)
	*p.labels = append(*p.labels, label)
	return &ast.ExprStmt{X: &ast.CallExpr{
		Fun:  &ast.SelectorExpr{X: ast.NewIdent("verifhook"), Sel: ast.NewIdent("Point")},
		Args: []ast.Expr{&ast.BasicLit{Kind: token.STRING, Value: strconv.Quote(label)}},
	}}
}

// instrumentListD: a "#d" point before every statement that may run SQL,
// recursively; other statements are left alone.
func (p *pointInserter) instrumentListD(list []ast.Stmt) []ast.Stmt {
	out := make([]ast.Stmt, 0, len(list)+4)
	for _, s := range list {
		if _, isDefer := s.(*ast.DeferStmt); !isDefer && p.dbTouching(s) {
			out = append(out, p.stmtD())
			p.nestedD(s)
		}
		out = append(out, s)
	}
	return out
}

func (p *pointInserter) nestedD(s ast.Stmt) {
	switch t := s.(type) {
	case *ast.BlockStmt:
		t.List = p.instrumentListD(t.List)
	case *ast.IfStmt:
		t.Body.List = p.instrumentListD(t.Body.List)
		if t.Else != nil {
			p.nestedD(t.Else)
		}
	case *ast.ForStmt:
		t.Body.List = p.instrumentListD(t.Body.List)
	case *ast.RangeStmt:
		if !p.mapRange(t.X) {
			t.Body.List = p.instrumentListD(t.Body.List)
		}
	case *ast.SwitchStmt:
		for _, c := range t.Body.List {
			cc := c.(*ast.CaseClause)
			cc.Body = p.instrumentListD(cc.Body)
		}
	case *ast.LabeledStmt:
		p.nestedD(t.Stmt)
	}
}

func (p *pointInserter) stmt() ast.Stmt {
	p.n++
	label := p.prefix + "#" + strconv.Itoa(p.n)
	*p.labels = append(*p.labels, label)
	return &ast.ExprStmt{X: &ast.CallExpr{
		Fun:  &ast.SelectorExpr{X: ast.NewIdent("verifhook"), Sel: ast.NewIdent("Point")},
		Args: []ast.Expr{&ast.BasicLit{Kind: token.STRING, Value: strconv.Quote(label)}},
	}}
}

// instrumentList returns list with a point before each statement; nested
// blocks are processed recursively; function literals are left alone.
func (p *pointInserter) instrumentList(list []ast.Stmt, connOnly bool) []ast.Stmt {
	out := make([]ast.Stmt, 0, 2*len(list))
	for i, s := range list {
		if connOnly && containsConnAcquire(s) {
			// From here on the function holds the pooled connection: a task
			// parked beyond this statement would block every other task.
			out = append(out, p.stmt(), s)
			out = append(out, p.instrumentListD(list[i+1:])...)
			return out
		}
		out = append(out, p.stmt())
		p.nested(s)
		out = append(out, s)
	}
	return out
}

func (p *pointInserter) nested(s ast.Stmt) {
	switch t := s.(type) {
	case *ast.BlockStmt:
		t.List = p.instrumentList(t.List, false)
	case *ast.IfStmt:
		t.Body.List = p.instrumentList(t.Body.List, false)
		if t.Else != nil {
			p.nested(t.Else)
		}
	case *ast.ForStmt:
		t.Body.List = p.instrumentList(t.Body.List, false)
	case *ast.RangeStmt:
		// the body of a loop over a map runs in an order the simulator does not
		// own: points in there would make the number and sequence of scheduling
		// decisions differ from run to run
		if !p.mapRange(t.X) {
			t.Body.List = p.instrumentList(t.Body.List, false)
		}
	case *ast.SwitchStmt:
		for _, c := range t.Body.List {
			cc := c.(*ast.CaseClause)
			cc.Body = p.instrumentList(cc.Body, false)
		}
	case *ast.TypeSwitchStmt:
		for _, c := range t.Body.List {
			cc := c.(*ast.CaseClause)
			cc.Body = p.instrumentList(cc.Body, false)
		}
	case *ast.SelectStmt:
		for _, c := range t.Body.List {
			cc := c.(*ast.CommClause)
			cc.Body = p.instrumentList(cc.Body, false)
		}
	case *ast.LabeledStmt:
		p.nested(t.Stmt)
	}
}

func addImport(f *ast.File, path string) {
	for _, im := range f.Imports {
		if im.Path.Value == strconv.Quote(path) {
			return
		}
	}
	spec := &ast.ImportSpec{Path: &ast.BasicLit{Kind: token.STRING, Value: strconv.Quote(path)}}
	decl := &ast.GenDecl{Tok: token.IMPORT, Specs: []ast.Spec{spec}}
	f.Decls = append([]ast.Decl{decl}, f.Decls...)
	f.Imports = append(f.Imports, spec)
}

func removeImport(f *ast.File, path string) {
	for _, d := range f.Decls {
		gd, ok := d.(*ast.GenDecl)
		if !ok || gd.Tok != token.IMPORT {
			continue
		}
		specs := gd.Specs[:0]
		for _, s := range gd.Specs {
			is := s.(*ast.ImportSpec)
			if is.Path.Value == strconv.Quote(path) && is.Name == nil {
				continue
			}
			specs = append(specs, s)
		}
		gd.Specs = specs
	}
	// drop empty import decls
	decls := f.Decls[:0]
	for _, d := range f.Decls {
		if gd, ok := d.(*ast.GenDecl); ok && gd.Tok == token.IMPORT && len(gd.Specs) == 0 {
			continue
		}
		decls = append(decls, d)
	}
	f.Decls = decls
}

func main() {
	repo := flag.String("repo", "/repo", "product repository")
	out := flag.String("out", "", "output directory")
	flag.Parse()
	if *out == "" {
		fail("-out required")
	}
	if err := os.MkdirAll(*out, 0o755); err != nil {
		fail("%v", err)
	}

	points, connOnly := parseKeys(pointFuncs)
	optPoints, _ := parseKeys(pointFuncsOptional)
	osF, _ := parseKeys(osFuncs)
	foundPoint := map[funcKey]bool{}
	foundOS := map[funcKey]bool{}

	dirs := map[string]bool{}
	for _, d := range clockPkgs {
		dirs[d] = true
	}
	for k := range points {
		dirs[k.dir] = true
	}
	for k := range osF {
		dirs[k.dir] = true
	}
	clockDir := map[string]bool{}
	for _, d := range clockPkgs {
		clockDir[d] = true
	}

	replace := map[string]string{}
	var labels []string
	clockSites := 0
	osSites := 0
	clockNames := map[string]bool{"Now": true, "Since": true, "Until": true}
	var closureFuncs []string

	dirList := make([]string, 0, len(dirs))
	for d := range dirs {
		dirList = append(dirList, d)
	}
	sort.Strings(dirList)

	// R2 closure: a function reached from an R2 function by calls inside the same package, and which
	// itself creates, opens for writing, renames or removes files, is rerouted too (the names verifos
	// provides only). On the pinned tree the closure adds nothing; it is there so that a file operation
	// moved into a new helper does not fall out of the simulated file system's sight.
	osClosure := map[funcKey]bool{}
	for _, dir := range dirList {
		has := false
		for k := range osF {
			if k.dir == dir {
				has = true
			}
		}
		if !has {
			continue
		}
		for _, n := range osCalleeClosure(filepath.Join(*repo, dir), dir, osF) {
			osClosure[funcKey{dir, n}] = true
		}
	}

	for _, dir := range dirList {
		abs := filepath.Join(*repo, dir)
		ents, err := os.ReadDir(abs)
		if err != nil {
			fail("read %s: %v", abs, err)
		}
		for _, e := range ents {
			name := e.Name()
			if e.IsDir() || !strings.HasSuffix(name, ".go") || strings.HasSuffix(name, "_test.go") {
				continue
			}
			if strings.HasPrefix(name, "verif_") {
				continue
			}
			src := filepath.Join(abs, name)
			fset := token.NewFileSet()
			f, err := parser.ParseFile(fset, src, nil, parser.ParseComments)
			if err != nil {
				fail("parse %s: %v", src, err)
			}
			changed := false
			usedClock, usedOS, usedPoint := false, false, false
			mapFields := map[string]bool{}
			ast.Inspect(f, func(x ast.Node) bool {
				if st, ok := x.(*ast.StructType); ok && st.Fields != nil {
					for _, fl := range st.Fields.List {
						if _, ok := fl.Type.(*ast.MapType); ok {
							for _, n := range fl.Names {
								mapFields[n.Name] = true
							}
						}
					}
				}
				return true
			})

			if clockDir[dir] {
				if n := rerouteSelectors(f, "time", "verifclock", clockNames); n > 0 {
					clockSites += n
					usedClock = true
					changed = true
				}
			}
			for _, d := range f.Decls {
				fd, ok := d.(*ast.FuncDecl)
				if !ok || fd.Body == nil {
					continue
				}
				k := funcKey{dir, funcName(fd)}
				if osF[k] {
					foundOS[k] = true
					if n := rerouteSelectors(fd, "os", "verifos", nil); n > 0 {
						osSites += n
						usedOS = true
						changed = true
					}
				} else if osClosure[k] {
					if n := rerouteSelectors(fd, "os", "verifos", osClosureNames); n > 0 {
						osSites += n
						usedOS = true
						changed = true
						closureFuncs = append(closureFuncs, k.dir+":"+k.name)
					}
				}
				// "Recv.*": every exported method of the receiver
				wild := false
				if i := strings.Index(k.name, "."); i > 0 && ast.IsExported(fd.Name.Name) {
					wk := funcKey{dir, k.name[:i] + ".*"}
					if points[wk] || optPoints[wk] {
						wild = true
						foundPoint[wk] = true
					}
				}
				recv := ""
				if fd.Recv != nil && len(fd.Recv.List) > 0 && len(fd.Recv.List[0].Names) > 0 {
					recv = fd.Recv.List[0].Names[0].Name
				}
				if points[k] || optPoints[k] || wild {
					foundPoint[k] = true
					pi := &pointInserter{prefix: filepath.Base(dir) + "." + k.name, labels: &labels, recv: recv, mapFields: mapFields, mapLocals: localMaps(fd)}
					fd.Body.List = pi.instrumentList(fd.Body.List, connOnly[k])
					usedPoint = true
					changed = true
				} else if dir == "internal/queue" && strings.HasPrefix(k.name, "SQLiteStore.") && name == "sqlite.go" {
					// every other method of the SQLite store: "#d" points only
					pi := &pointInserter{prefix: filepath.Base(dir) + "." + k.name, labels: &labels, recv: recv, mapFields: mapFields, mapLocals: localMaps(fd)}
					before := len(labels)
					fd.Body.List = pi.instrumentListD(fd.Body.List)
					if len(labels) > before {
						usedPoint = true
						changed = true
					}
				}
			}
			if !changed {
				continue
			}
			if usedClock {
				addImport(f, modPath+"/internal/verifhook/verifclock")
				if !usesPkg(f, "time") {
					removeImport(f, "time")
				}
			}
			if usedOS {
				addImport(f, modPath+"/internal/verifhook/verifos")
				if !usesPkg(f, "os") {
					removeImport(f, "os")
				}
			}
			if usedPoint {
				addImport(f, modPath+"/internal/verifhook")
			}
			var buf bytes.Buffer
			if err := format.Node(&buf, fset, f); err != nil {
				fail("format %s: %v", src, err)
			}
			dst := filepath.Join(*out, strings.ReplaceAll(dir, "/", "_")+"__"+name)
			if err := os.WriteFile(dst, buf.Bytes(), 0o644); err != nil {
				fail("%v", err)
			}
			replace[src] = dst
		}
	}

	// A listed R1 function that no longer exists (renamed, split, inlined) costs
	// scheduling points, not soundness: the checks run with fewer interleavings
	// and the evidence names what was not found.
	var missing []string
	for k := range points {
		if !foundPoint[k] {
			missing = append(missing, k.dir+":"+k.name)
		}
	}
	sort.Strings(missing)
	for _, m := range missing {
		fmt.Fprintf(os.Stderr, "instrument: warning: R1 function not found, no scheduling points there: %s\n", m)
	}
	for k := range osF {
		if !foundOS[k] {
			fail("R2 function not found: %s:%s", k.dir, k.name)
		}
	}

	ov, _ := json.MarshalIndent(map[string]any{"Replace": replace}, "", " ")
	if err := os.WriteFile(filepath.Join(*out, "overlay.json"), ov, 0o644); err != nil {
		fail("%v", err)
	}
	sort.Strings(labels)
	lb, _ := json.Marshal(map[string]any{"points": labels, "clock_sites": clockSites, "os_sites": osSites, "files": len(replace), "missing_point_funcs": missing, "os_closure_funcs": closureFuncs})
	_ = os.WriteFile(filepath.Join(*out, "instrument.json"), lb, 0o644)
	fmt.Printf("instrument: %d files, %d points, %d clock sites, %d os sites\n", len(replace), len(labels), clockSites, osSites)
}
