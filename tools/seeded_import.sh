#!/bin/bash
# usage: tools/seeded_import.sh <src worktree> <seeded-id> <demo-pkg-dir> <Cnn> [Cnn...]
# copies patch.diff / notes.md / the demonstration of an independently written change into seeded/<id>/,
# confirms it (scratch worktree) and judges it with the quick checks on a second scratch worktree (SEEDED_WT=1)
set -u
SRC="$1"; ID="$2"; PKG="$3"; shift 3
cd "$(dirname "$0")/.."
D=seeded/$ID; mkdir -p $D
cp "$SRC/patch.diff" $D/patch.diff
[ -f "$SRC/notes.md" ] && cp "$SRC/notes.md" $D/notes.md
cp "$SRC/$PKG"/zz_seeded_demo_test.go $D/ 2>/dev/null || { echo "no demo in $SRC/$PKG"; exit 2; }
echo "$PKG" > $D/demo_pkg.txt
SEEDED_WT=1 tools/seeded.sh $D "$PKG" "$@" 2>&1 | tee $D/first_run.txt
