#!/bin/bash
# usage: tools/seeded_matrix.sh [seeded-id ...]
# Applies every independently written change under /verif/seeded/ to /repo in turn (git apply), runs the quick
# checks named in its meta.json, reverts (git checkout -- .), keeps the replay file of each catch next to the
# change, and writes the table to seeded/MATRIX.txt. /repo must be clean.
set -u
cd "$(dirname "$0")/.."
if ! git -C /repo diff --quiet; then echo "/repo is dirty"; exit 2; fi
ids=("$@"); [ ${#ids[@]} -eq 0 ] && ids=($(ls seeded | grep -v MATRIX))
out=seeded/MATRIX.txt.new; : > $out
for id in "${ids[@]}"; do
  d=seeded/$id; [ -f $d/patch.diff ] || continue
  props=$(python3 -c "import json;print(' '.join(json.load(open('$d/meta.json'))['result'].keys()))")
  git -C /repo apply "$PWD/$d/patch.diff" || { echo "$id: patch does not apply" | tee -a $out; continue; }
  for p in $props; do
    rd=$(mktemp -d /tmp/seedmx-XXXXXX)
    VERIF_NO_EVIDENCE=1 VERIF_REPLAY_DIR=$rd ./check $p > /tmp/seedmx-$p.log 2>&1; rc=$?
    rule=$(grep -m1 '^  rule ' /tmp/seedmx-$p.log | cut -c8-120)
    case $rc in 1) res="caught"; f=$(ls $rd/*.json 2>/dev/null | head -1); [ -n "$f" ] && cp "$f" $d/replay-$p.json ;; 0) res="NOT caught" ;; *) res="trouble(exit $rc)" ;; esac
    printf "%-48s %-4s %-18s %s\n" "$id" "$p" "$res" "$rule" | tee -a $out
    rm -rf $rd
  done
  git -C /repo checkout -- .
done
[ $# -eq 0 ] && mv $out seeded/MATRIX.txt
git -C /repo status --short | head -3
