#!/bin/bash
# usage: tools/seeded_matrix.sh [seeded-id ...]
# Applies every independently written change under /verif/seeded/ in turn to a scratch worktree of /repo (never
# /repo itself), runs the quick checks named in its meta.json against that tree (VERIF_REPO), removes the worktree,
# keeps the replay file of each catch next to the change, and writes the table to seeded/MATRIX.txt.
set -u
cd "$(dirname "$0")/.."
ids=("$@"); [ ${#ids[@]} -eq 0 ] && ids=($(ls seeded | grep -v MATRIX))
out=seeded/MATRIX.txt.new; : > $out
for id in "${ids[@]}"; do
  d=seeded/$id; [ -f $d/patch.diff ] || continue
  props=$(python3 -c "import json;print(' '.join(json.load(open('$d/meta.json'))['result'].keys()))")
  WT=$(mktemp -d /tmp/seedmx-wt-XXXXXX)
  git -C /repo worktree add -q --detach "$WT" HEAD || { echo "$id: worktree failed" | tee -a $out; continue; }
  if ! git -C "$WT" apply "$PWD/$d/patch.diff" 2>/dev/null; then
    echo "$id: patch does not apply" | tee -a $out
    git -C /repo worktree remove --force "$WT" >/dev/null 2>&1; rm -rf "$WT"; continue
  fi
  for p in $props; do
    rd=$(mktemp -d /tmp/seedmx-XXXXXX)
    VERIF_REPO="$WT" VERIF_NO_EVIDENCE=1 VERIF_REPLAY_DIR=$rd ./check $p > /tmp/seedmx-$id-$p.log 2>&1; rc=$?
    rule=$(grep -m1 '^  rule ' /tmp/seedmx-$id-$p.log | cut -c8-120)
    case $rc in 1) res="caught"; f=$(ls $rd/*.json 2>/dev/null | head -1); [ -n "$f" ] && cp "$f" $d/replay-$p.json ;; 0) res="NOT caught" ;; *) res="trouble(exit $rc)" ;; esac
    printf "%-52s %-4s %-18s %s\n" "$id" "$p" "$res" "$rule" | tee -a $out
    rm -rf $rd
  done
  git -C /repo worktree remove --force "$WT" >/dev/null 2>&1; rm -rf "$WT"
done
[ $# -eq 0 ] && mv $out seeded/MATRIX.txt
git -C /repo worktree prune
