#!/bin/bash
# usage: tools/mutant.sh <patch-or-sed-script.sh> <prop> [check args...]
# Applies a mutation to a scratch worktree of /repo (never /repo itself), runs the
# check against it, removes the worktree. Prints the check's exit code.
set -u
MUT="$1"; PROP="$2"; shift 2
WT=$(mktemp -d /tmp/mut-XXXXXX)
git -C /repo worktree add -q --detach "$WT" HEAD >/dev/null 2>&1 || { echo "worktree failed"; exit 2; }
trap 'git -C /repo worktree remove --force "$WT" >/dev/null 2>&1; rm -rf "$WT"' EXIT
case "$MUT" in
  *.diff|*.patch) git -C "$WT" apply "$MUT" || { echo "patch does not apply"; exit 2; } ;;
  *.sh) (cd "$WT" && bash "$MUT") || { echo "mutation script failed"; exit 2; } ;;
esac
if git -C "$WT" diff --quiet; then echo "mutation did not change the tree"; exit 2; fi
(cd "$WT" && GOFLAGS=-mod=mod GOPROXY=off go build ./... ) || { echo "mutant does not compile"; exit 2; }
RD=$(mktemp -d /tmp/mutreplay-XXXXXX)
VERIF_REPO="$WT" VERIF_NO_EVIDENCE=1 VERIF_REPLAY_DIR="$RD" /verif/check "$PROP" "$@" 2>&1 | grep -v "^    \|^  rule" | tail -4
rc=${PIPESTATUS[0]}
rm -rf "$RD"
echo "mutant $(basename $MUT) on $PROP: exit $rc"
exit $rc
