package sim

import "pgregory.net/rapid"

var storeRealStub = map[string]string{
	"queue.MemoryStore / queue.SQLiteStore (modernc SQLite)": "real",
	"clock":                    "simulated (Clock via WithNowFunc/WithSQLiteNowFunc and verifclock rewrite)",
	"SQLite checkpoint ticker": "disabled (checkpoint is a program step)",
	"long-poll (MaxWait)":      "not in this world (MaxWait=0); W-conc has long-polling callers on SQLite",
	"queue.PostgresStore":      "not executed (no server in the sandbox)",
}

func storeNonTrivial(p *Program, r *Result) bool { return r.Ops >= 3 }

func w(base map[string]int, over map[string]int) map[string]int {
	out := map[string]int{}
	for k, v := range base {
		out[k] = v
	}
	for k, v := range over {
		out[k] = v
	}
	return out
}

func init() {
	both := []string{"memory", "sqlite"}
	reg := func(prop string, prof StoreProfile, rule string, quick, thorough int) {
		Register(&CheckSpec{
			Prop: prop, World: "store",
			Gen:        func(t *rapid.T) *Program { return GenStoreProgram(t, prof) },
			Run:        RunStoreProgram,
			NonTrivial: storeNonTrivial,
			Rule:       rule + "; non-trivial = >=3 operations; distinct = distinct (config, op-kind sequence) shapes",
			RealStub:   storeRealStub,
			Quick:      quick, Thorough: thorough,
		})
	}
	reg("C02", StoreProfile{Backends: both, Limits: true, Retention: true, Pressure: true, ExplicitTS: true, MaxSteps: 45},
		"seeded random histories of all Store operations against QueueModel with a full listing diff after every step", 16000, 1500000)
	reg("C03", StoreProfile{Backends: both, Limits: false, Retention: true, MaxSteps: 45, ExplicitTS: true,
		Weights: w(defaultWeights, map[string]int{"dequeue": 40, "advance": 25, "enqueue": 25, "extend": 8, "cancel": 5, "requeue": 5})},
		"dequeue-heavy multi-consumer histories (any lease id kept and presented later) with clock advances across lease boundaries; oracle: every dequeued item was offerable (not leased-unexpired, due, right state), fresh lease id, attempt+1, lease_until=now+ttl", 16000, 1000000)
	reg("C04", StoreProfile{Backends: both, Limits: false, Retention: true, MaxSteps: 45,
		Weights: w(defaultWeights, map[string]int{"ack": 14, "nack": 14, "extend": 10, "dead": 10, "ack_batch": 8, "nack_batch": 8, "dead_batch": 6, "dequeue": 30, "advance": 22, "cancel": 6, "requeue": 6, "resume": 4})},
		"histories in which every lease id ever issued (plus blank, unknown, duplicated ids) is presented again after expiry, re-lease, cancel/requeue or settlement; oracle: effect iff current unexpired lease, else conflict and no change beyond releasing the expired lease", 16000, 1000000)
	reg("C05", StoreProfile{Backends: both, Limits: false, Retention: true, MaxSteps: 45, ExplicitTS: true,
		Weights: w(defaultWeights, map[string]int{"dequeue": 40, "advance": 30, "nack": 15, "extend": 8, "nack_batch": 5, "enqueue": 25, "clockback": 3})},
		"dequeue/nack/extend/expiry histories against a controlled clock; oracle at every dequeue: returned within may-set, count >= min(batch, must-set) where must = queued and due, or lease expired >= 10 ms ago (0 ms memory); not-before bounds exact", 16000, 1000000)
	reg("C12", StoreProfile{Backends: both, Limits: true, Retention: true, Pressure: true, MaxSteps: 40, ExplicitTS: true,
		Weights: w(defaultWeights, map[string]int{"enqueue": 45, "enqueue_batch": 18, "dequeue": 14, "ack": 6, "requeue": 4, "resume": 3})},
		"store part: enqueue/batch sequences (duplicate ids, batches larger than remaining capacity) around max_depth under both drop policies; oracle: admitted only below max_depth, refusal leaves the listing unchanged, drop_oldest evicts oldest queued only, one per stored message", 16000, 1000000)
	reg("C14", StoreProfile{Backends: both, Limits: false, Retention: false, MaxSteps: 50, ExplicitTS: true,
		Weights: w(defaultWeights, map[string]int{"cancel": 10, "requeue": 10, "resume": 8, "dlq_requeue": 6, "dlq_delete": 6, "cancel_f": 12, "requeue_f": 12, "resume_f": 10, "list": 8, "list_dead": 4, "enqueue": 35, "dequeue": 20, "dead": 12, "dead_batch": 4})},
		"store part: populations of mixed routes/targets/states/timestamps (ties included) and id lists / filters; oracle: reference selection (allowed states, every criterion, newest first by (received_at,id), cap 100/1000), everything else byte-identical, counts equal messages changed, preview changes nothing", 16000, 1000000)

	reg("C07", StoreProfile{Backends: both, Limits: false, Retention: false, MaxSteps: 45, Headers: true,
		Weights: w(defaultWeights, map[string]int{"enqueue": 30, "enqueue_batch": 8, "dequeue": 30, "nack": 12, "dead": 12, "dead_batch": 4, "advance": 16, "cancel": 8, "requeue": 10, "resume": 8, "dlq_requeue": 10, "cancel_f": 5, "requeue_f": 6, "resume_f": 5})},
		"store part: payload bytes and header maps of every message stay identical across every operation that brings it back - redelivery after nack and after lease expiry, dead-lettering and DLQ requeue, cancel and resume, by id and by filter - on both backends (model rule C02.immutable.*, full listing with payload, headers and trace after every step; every dequeued item is compared too); header values include supplementary-plane and private-use runes, U+2028, quotes / backslashes, text that looks like an escape, and bytes that are not UTF-8 (recorded finding on SQLite)", 8000, 400000)

	Register(&CheckSpec{
		Prop: "C13", World: "diff",
		Gen: func(t *rapid.T) *Program {
			p := GenStoreProgram(t, StoreProfile{Backends: []string{"both"}, Limits: true, Retention: true, ExplicitTS: true, PaddedIDs: true, Headers: true, MaxSteps: 40})
			p.World = "diff"
			// Documented memory-only behaviour (docs/configuration.md,
			// delivered_retention): with delivered retention on, max_depth also
			// bounds queued+leased+delivered on the memory backend. W-diff does
			// not drive the backends into that documented difference.
			if p.Store.MaxDepth > 0 && p.Store.DeliveredMaxAge > 0 {
				p.Store.DeliveredMaxAge = 0
			}
			return p
		},
		Run:        RunDiffProgram,
		NonTrivial: storeNonTrivial,
		Rule:       "the same seeded program on MemoryStore and SQLiteStore under one simulated time line; each checked against the shared contract model, and every step's results compared directly while the abstract states coincide; non-trivial = >=3 steps executed on both; distinct = distinct (config, op-kind sequence) shapes",
		RealStub:   storeRealStub,
		Quick:      12000, Thorough: 600000,
		Assumptions: []string{"Postgres backend not executed: no server in the sandbox"},
	})
}

var concRealStub = map[string]string{
	"queue.SQLiteStore incl. schema, triggers, pooled connection (database/sql), modernc SQLite": "real",
	"disk":               "simulated (shim VFS: writes pending until sync; kill and power-loss images; crash at a chosen disk operation of the concurrent block)",
	"scheduler":          "simulated: callers are real goroutines parked at a scheduling point before every statement of the instrumented SQLiteStore functions (go/ast overlay) and released one at a time by the seeded choice list; a caller waiting for the pooled connection or a mutex is recognised by its Go wait state and left out until it wakes",
	"clock":              "simulated, constant during the concurrent block; in long-poll programs (C03, C05: 2 in 10 SQLite programs) the second caller lets time pass between its calls while the long-polling caller is at rest (between calls, or in its wait), and the long-poll timer (real time) is set out of reach: the waiting caller is woken by enqueues only; a long-poll dequeue counts as one dequeue per attempt it made",
	"reference":          "the same store driven sequentially on a fresh database (linearizability with respect to its own sequential behaviour, which W-store judges against the contract model)",
	"memory backend":     "real, in 3 of 10 programs (not for C01): every statement of the exported MemoryStore methods is a scheduling point; a caller waiting for the store mutex is recognised as blocked",
	"HTTP/gRPC handlers": "not in this world",
}

func init() {
	regC := func(prop string, crash int, rule string, quick, thorough int) {
		prof := ConcProfile{Crash: crash, Sweep: 30}
		if prop == "C12" {
			prof.Limits = 8
		}
		if prop != "C01" {
			prof.Memory = 3 // the memory backend has nothing durable: not for C01
		}
		if prop == "C03" || prop == "C05" {
			prof.LongPoll = 2 // a long-polling consumer woken by another caller's enqueue
		}
		prof.TwoHandles = 3 // a second process on the same file (hookaido mcp opens the SQLite queue directly)
		Register(&CheckSpec{
			Prop: prop, World: "conc",
			Gen:        func(t *rapid.T) *Program { return GenConcProgram(t, prof) },
			Run:        RunConcProgram,
			NonTrivial: func(p *Program, r *Result) bool { return r.Probes["conc.interleaved"] > 0 },
			Rule:       rule + "; non-trivial = the two callers really alternated (more than one switch between them); distinct = distinct (prefix kinds, calls per task, crash kind) shapes",
			RealStub:   concRealStub,
			Level:      "exploration",
			Quick:      quick, Thorough: thorough,
		})
	}
	regC("C01", 7, "concurrent callers + crash: prefix, then two callers with 1-3 store calls each interleaved statement by statement, a kill or power loss at a drawn disk operation of the block, restart on the image; calls that returned before the crash instant must all be reflected in the content after restart, calls in flight may or may not be (every subset tried), no other content is admissible; 3 in 100 programs are run under every single-preemption schedule (caller A for k decisions, then all of caller B, then the rest of A; crash at the instant B is done) instead of one drawn schedule", 5000, 400000)
	regC("C03", 0, "concurrent callers: dequeues, settlements, operator cancels and enqueues of two callers interleaved statement by statement; the history (results incl. which message each dequeue leased under which attempt) must equal some sequential order, so no message is leased to both callers at once; 3 in 100 programs under every single-preemption schedule", 2500, 250000)
	regC("C04", 0, "concurrent callers: ack/nack/extend/dead (single and batch) of one caller against dequeue, cancel, requeue and settlements of the other; results and final content must equal some sequential order: a lease that the other caller's call has voided or re-issued never settles the message; 3 in 100 programs under every single-preemption schedule", 2500, 250000)
	regC("C12", 0, "concurrent callers at a small max_depth (reject and drop_oldest): single and batch enqueues of two callers interleaved statement by statement with dequeues, settlements and operator requeues; admissions, refusals, evictions and the final content must equal some sequential order, so the depth check and the insert (and, for drop_oldest, the eviction) are one step; 3 in 100 programs under every single-preemption schedule", 2500, 250000)
	regC("C14", 0, "operator mutations against concurrent worker calls: by-id and by-filter cancel / requeue / resume of one caller interleaved statement by statement with dequeues and settlements of the other (one handle, and two handles on the one file as hookaido mcp has); a by-filter call counts as a selection followed by the id-based operation on what was selected, which the other caller may separate - results and final content must equal some order of those steps, so only messages in a state the operation covers at the moment of the update are changed and counted", 2000, 150000)
	regC("C02", 2, "concurrent callers (one handle, two handles on the one file, + crash in 2 of 10 runs): every kind of store call of two callers interleaved statement by statement; results and final rows must equal some sequential order of the calls, so no interleaving duplicates a message, revives a settled or canceled one, moves it along an edge the state machine does not have or alters its fields; 3 in 100 programs under every single-preemption schedule", 2500, 250000)
	regC("C05", 3, "concurrent callers (+ crash in 3 of 10 runs): expired leases swept by one caller's dequeue while the other settles or dequeues; no ready message is lost or handed out twice in any interleaving; no deadlock between callers; 3 in 100 programs under every single-preemption schedule", 2500, 250000)
}

var sysRealStub = map[string]string{
	"config.Parse/Compile, app.newRuntimeState/loadAuth/startServers/reloadConfig, ingress.Server + authenticators, pullapi/admin handlers, queue store": "real (node assembled by app.VerifNewNode from generated Hookaidofile text)",
	"run() glue (flags, signals, pid file, tracing, watcher, trend ticker)":                                                                              "stub (left out)",
	"listeners / TCP / TLS": "not exercised: requests are handed to the http.Handler of the *http.Server that startServers built",
	"clock":                 "simulated (verifclock rewrite of time.Now/Since/Until)",
	"network (forward-auth call-outs, deliveries, DNS)": "simulated (simnet Transport + Resolver)",
	"client side of every protocol":                     "stub (generated requests)",
}

func init() {
	mem := []string{"memory", "sqlite"}
	regI := func(prop string, prof IngressProfile, rule string, quick, thorough int) {
		Register(&CheckSpec{
			Prop: prop, World: "ingress",
			Gen:        func(t *rapid.T) *Program { return GenIngressProgram(t, prof) },
			Run:        RunIngressProgram,
			NonTrivial: func(p *Program, r *Result) bool { return r.Ops >= 3 },
			Rule:       rule + "; non-trivial = >=3 steps; distinct = distinct (step-kind sequence) shapes",
			RealStub:   sysRealStub,
			Quick:      quick, Thorough: thorough,
		})
	}
	regI("C10", IngressProfile{Auth: []string{"none", "none", "basic"}, Channels: true, Match: true, MaxRoutes: 5, Backends: mem, Reload: true},
		"generated configurations (1-5 routes, all three channel types, overlapping paths, match blocks) x generated requests (dot segments, trailing slashes, host case/port/trailing dot, v4/v6/v4-mapped remote addresses) through the real startServers wiring; oracle: independent resolver written from docs (first inbound route whose criteria all hold; 404 / 405+Allow), enqueued route/targets equal the resolved route's, no queue effect otherwise", 6000, 120000)
	regI("C08", IngressProfile{Auth: []string{"basic", "hmac", "hmac", "forward"}, Match: false, Rotation: true, MaxRoutes: 3, Backends: mem, Fanout: true, Replay: true, Race: true},
		"routes with basic / HMAC (inline and rotating secret_ref versions, custom header names, tolerance) / forward auth; valid requests and systematic mutations (dropped/renamed headers, flipped signature bit, altered body/path/method, wrong or out-of-window secret, timestamps at tolerance +-{0,1s}), forward-auth service answering 2xx/401/403/other/hang/refused/reset; oracle: independent acceptance predicate -> status class, anything enqueued was authenticated, every rejection leaves the listing untouched; two in three programs end with a race of two or three concurrent requests interleaved at every statement of ServeHTTP / Verify / nonce cache: the queue gains exactly what the accepted answers stand for", 6000, 120000)
	regI("C09", IngressProfile{Auth: []string{"hmac"}, Replay: true, Reload: true, MaxRoutes: 2, Backends: mem, Race: true},
		"HMAC routes, small nonce pool, arrival times at and around the edges of [ts-tol, ts+tol] (clock on whole-second boundaries so that now == ts+tol is reached), invalid requests carrying the nonce first, config reloads between original and replay; oracle: per (route, nonce, signed timestamp) at most one 202 during the life of the node; two in three programs end with a race: the same signed request sent two or three times at once (or a captured one alongside a new one), interleaved at every statement of ServeHTTP, HMACAuth.Verify and the nonce cache by a seeded choice list: still at most one 202, and the queue gains exactly what the accepted answers stand for", 6000, 120000)
	regI("C12", IngressProfile{Auth: []string{"none", "none", "basic", "forward"}, Rate: true, Limits: true, MaxRoutes: 3, Backends: mem, Fanout: true, Reload: true, Race: true},
		"ingress part: bodies and header sets around max_body/max_headers (413), arrival-time sequences at route-level and global token-bucket limiters (window characterisation: admitted iff count <= burst + rps x window for every window; 429 otherwise; windows cut at reloads), queue_limits through ingress (503, partial fan-out keeps earlier copies); every refusal leaves the listing unchanged; two in three programs end with a race of concurrent requests at the limiter: those admitted at one instant still fit burst + rps x window", 6000, 120000)
	regI("C07", IngressProfile{Auth: []string{"none", "basic", "hmac", "forward"}, MaxRoutes: 3, Backends: mem, Fanout: true, Limits: true},
		"ingress part: accepted requests with bodies containing NUL / 0xFF / invalid UTF-8 / CRLF / empty, header sets with repeated fields in several spellings, credential headers (Authorization, Proxy-Authorization, Cookie) and forward-auth copy_headers; oracle: the stored message (listed with payload and headers straight from the store) carries exactly the received bytes and the documented header map (canonical names, repeated values comma-joined, credentials dropped, copied forward-auth headers added)", 5000, 100000)
	regI("C17", IngressProfile{Auth: []string{"hmac"}, Rotation: true, MaxRoutes: 2, Backends: mem},
		"inbound part: secret_ref versions with validity windows (S1 valid until +1h exclusive, S2 valid from +30min inclusive); requests signed with each version at signed timestamps walked across the window boundaries; oracle: accepted iff signed with a version valid at the signed timestamp", 5000, 100000)
}
