package sim

import "pgregory.net/rapid"

var storeRealStub = map[string]string{
	"queue.MemoryStore / queue.SQLiteStore (modernc SQLite)": "real",
	"clock":                     "simulated (Clock via WithNowFunc/WithSQLiteNowFunc and verifclock rewrite)",
	"SQLite checkpoint ticker":  "disabled (checkpoint is a program step)",
	"long-poll (MaxWait)":       "not exercised (MaxWait=0)",
	"queue.PostgresStore":       "not executed (no server in the sandbox)",
}

func storeNonTrivial(p *Program, r *Result) bool { return r.Ops >= 3 }

func init() {
	both := []string{"memory", "sqlite"}
	Register(&CheckSpec{
		Prop: "C02", World: "store",
		Gen: func(t *rapid.T) *Program {
			return GenStoreProgram(t, StoreProfile{Backends: both, Limits: true, Retention: true, Pressure: true, ExplicitTS: true, MaxSteps: 45})
		},
		Run:        RunStoreProgram,
		NonTrivial: storeNonTrivial,
		Rule:       "seeded random histories of all Store operations against QueueModel with a full listing diff after every step; non-trivial = >=3 operations; distinct = distinct (config, op-kind sequence) shapes",
		RealStub:   storeRealStub,
		Quick:      16000, Thorough: 800000,
	})
}
