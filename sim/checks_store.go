package sim

import "pgregory.net/rapid"

var storeRealStub = map[string]string{
	"queue.MemoryStore / queue.SQLiteStore (modernc SQLite)": "real",
	"clock":                     "simulated (Clock via WithNowFunc/WithSQLiteNowFunc and verifclock rewrite)",
	"SQLite checkpoint ticker":  "disabled (checkpoint is a program step)",
	"long-poll (MaxWait)":       "not exercised (MaxWait=0)",
	"queue.PostgresStore":       "not executed (no server in the sandbox)",
}

func storeNonTrivial(p *Program, r *Result) bool { return r.Ops >= 3 }


func w(base map[string]int, over map[string]int) map[string]int {
	out := map[string]int{}
	for k, v := range base {
		out[k] = v
	}
	for k, v := range over {
		out[k] = v
	}
	return out
}

func init() {
	both := []string{"memory", "sqlite"}
	reg := func(prop string, prof StoreProfile, rule string, quick, thorough int) {
		Register(&CheckSpec{
			Prop: prop, World: "store",
			Gen:        func(t *rapid.T) *Program { return GenStoreProgram(t, prof) },
			Run:        RunStoreProgram,
			NonTrivial: storeNonTrivial,
			Rule:       rule + "; non-trivial = >=3 operations; distinct = distinct (config, op-kind sequence) shapes",
			RealStub:   storeRealStub,
			Quick:      quick, Thorough: thorough,
		})
	}
	reg("C02", StoreProfile{Backends: both, Limits: true, Retention: true, Pressure: true, ExplicitTS: true, MaxSteps: 45},
		"seeded random histories of all Store operations against QueueModel with a full listing diff after every step", 16000, 1500000)
	reg("C03", StoreProfile{Backends: both, Limits: false, Retention: true, MaxSteps: 45, ExplicitTS: true,
		Weights: w(defaultWeights, map[string]int{"dequeue": 40, "advance": 25, "enqueue": 25, "extend": 8, "cancel": 5, "requeue": 5})},
		"dequeue-heavy multi-consumer histories (any lease id kept and presented later) with clock advances across lease boundaries; oracle: every dequeued item was offerable (not leased-unexpired, due, right state), fresh lease id, attempt+1, lease_until=now+ttl", 16000, 1000000)
	reg("C04", StoreProfile{Backends: both, Limits: false, Retention: true, MaxSteps: 45,
		Weights: w(defaultWeights, map[string]int{"ack": 14, "nack": 14, "extend": 10, "dead": 10, "ack_batch": 8, "nack_batch": 8, "dead_batch": 6, "dequeue": 30, "advance": 22, "cancel": 6, "requeue": 6, "resume": 4})},
		"histories in which every lease id ever issued (plus blank, unknown, duplicated ids) is presented again after expiry, re-lease, cancel/requeue or settlement; oracle: effect iff current unexpired lease, else conflict and no change beyond releasing the expired lease", 16000, 1000000)
	reg("C05", StoreProfile{Backends: both, Limits: false, Retention: true, MaxSteps: 45, ExplicitTS: true,
		Weights: w(defaultWeights, map[string]int{"dequeue": 40, "advance": 30, "nack": 15, "extend": 8, "nack_batch": 5, "enqueue": 25})},
		"dequeue/nack/extend/expiry histories against a controlled clock; oracle at every dequeue: returned within may-set, count >= min(batch, must-set) where must = queued and due, or lease expired >= 10 ms ago (0 ms memory); not-before bounds exact", 16000, 1000000)
	reg("C12", StoreProfile{Backends: both, Limits: true, Retention: true, Pressure: true, MaxSteps: 40, ExplicitTS: true,
		Weights: w(defaultWeights, map[string]int{"enqueue": 45, "enqueue_batch": 18, "dequeue": 14, "ack": 6, "requeue": 4, "resume": 3})},
		"store part: enqueue/batch sequences (duplicate ids, batches larger than remaining capacity) around max_depth under both drop policies; oracle: admitted only below max_depth, refusal leaves the listing unchanged, drop_oldest evicts oldest queued only, one per stored message", 16000, 1000000)
	reg("C14", StoreProfile{Backends: both, Limits: false, Retention: false, MaxSteps: 50, ExplicitTS: true,
		Weights: w(defaultWeights, map[string]int{"cancel": 10, "requeue": 10, "resume": 8, "dlq_requeue": 6, "dlq_delete": 6, "cancel_f": 12, "requeue_f": 12, "resume_f": 10, "list": 8, "list_dead": 4, "enqueue": 35, "dequeue": 20, "dead": 12, "dead_batch": 4})},
		"store part: populations of mixed routes/targets/states/timestamps (ties included) and id lists / filters; oracle: reference selection (allowed states, every criterion, newest first by (received_at,id), cap 100/1000), everything else byte-identical, counts equal messages changed, preview changes nothing", 16000, 1000000)

	Register(&CheckSpec{
		Prop: "C13", World: "diff",
		Gen: func(t *rapid.T) *Program {
			p := GenStoreProgram(t, StoreProfile{Backends: []string{"both"}, Limits: true, Retention: true, ExplicitTS: true, PaddedIDs: true, MaxSteps: 40})
			p.World = "diff"
			// Documented memory-only behaviour (docs/configuration.md,
			// delivered_retention): with delivered retention on, max_depth also
			// bounds queued+leased+delivered on the memory backend. W-diff does
			// not drive the backends into that documented difference.
			if p.Store.MaxDepth > 0 && p.Store.DeliveredMaxAge > 0 {
				p.Store.DeliveredMaxAge = 0
			}
			return p
		},
		Run:        RunDiffProgram,
		NonTrivial: storeNonTrivial,
		Rule:       "the same seeded program on MemoryStore and SQLiteStore under one simulated time line; each checked against the shared contract model, and every step's results compared directly while the abstract states coincide; non-trivial = >=3 steps executed on both; distinct = distinct (config, op-kind sequence) shapes",
		RealStub:   storeRealStub,
		Quick:      12000, Thorough: 600000,
		Assumptions: []string{"Postgres backend not executed: no server in the sandbox"},
	})
}
