package sim

// simnet: the only network the node sees. Transport implements
// http.RoundTripper for push deliveries, redirect hops and forward-auth
// call-outs; Resolver implements LookupIPAddr for the egress policy. Nothing in
// a run opens a socket.

import (
	"bytes"
	"context"
	"errors"
	"fmt"
	"io"
	"net"
	"net/http"
	"sort"
	"strings"
	"sync"
	"time"
)

// Behaviour of an endpoint for one request.
type NetAction struct {
	Kind     string            `json:"kind"`               // status | refused | reset | resp_lost | hang | dnsfail | redirect
	Status   int               `json:"status,omitempty"`   // for status / redirect
	Location string            `json:"location,omitempty"` // redirect target
	Headers  map[string]string `json:"headers,omitempty"`  // response headers
	Delay    time.Duration     `json:"delay,omitempty"`    // simulated latency (advances the clock)
	BodyCut  bool              `json:"body_cut,omitempty"` // status: status line and headers arrive, the body breaks off short of its Content-Length
}

// cutBody: a few bytes, then the connection is gone.
type cutBody struct{ sent bool }

func (c *cutBody) Read(p []byte) (int, error) {
	if !c.sent && len(p) >= 7 {
		c.sent = true
		return copy(p, "partial"), nil
	}
	return 0, io.ErrUnexpectedEOF
}
func (c *cutBody) Close() error { return nil }

// NetRequest is one request that reached the simulated network.
type NetRequest struct {
	Seq      int
	At       time.Time
	Method   string
	URL      string
	Host     string
	Path     string
	Header   http.Header
	Body     []byte
	Action   NetAction
	Resolved []string // answer the resolver last gave for this host (policy-relevant fact)
}

type Endpoint struct {
	Host    string
	Script  []NetAction // consumed in order; the last one repeats
	used    int
	Handler func(req *NetRequest) *NetAction // optional: overrides Script
}

type Net struct {
	mu        sync.Mutex
	clock     *Clock
	endpoints map[string]*Endpoint // by lower-case host (with port if given)
	Log       []*NetRequest
	seq       int
	// Park is called at request hand-off and response hand-off (P3 points).
	Park func(label string)
	// Timeout for a "hang": the transport advances the clock by the deadline
	// the caller set (context deadline) and returns the deadline error at once.
	Counts map[string]int

	// resolver
	answers   map[string][][]net.IP // host -> successive answers (last repeats)
	answerIdx map[string]int
	lastAns   map[string][]string
	dnsFail   map[string]bool
	Lookups   int

	// Observers, called on the goroutine of the caller (the task).
	OnLookup  func(host string, ips []net.IP, failed bool)
	OnRequest func(nr *NetRequest, received bool)
	OnDelay   func(d time.Duration) // called before a scripted delay / hang moves the clock
}

func NewNet(clock *Clock) *Net {
	return &Net{clock: clock, endpoints: map[string]*Endpoint{}, Counts: map[string]int{}, answers: map[string][][]net.IP{}, answerIdx: map[string]int{}, lastAns: map[string][]string{}, dnsFail: map[string]bool{}}
}

func (n *Net) AddEndpoint(e *Endpoint) {
	n.mu.Lock()
	n.endpoints[strings.ToLower(e.Host)] = e
	n.mu.Unlock()
}

func (n *Net) SetAnswers(host string, answers ...[]net.IP) {
	n.mu.Lock()
	n.answers[strings.ToLower(strings.TrimSuffix(host, "."))] = answers
	n.mu.Unlock()
}

func (n *Net) SetDNSFail(host string, fail bool) {
	n.mu.Lock()
	n.dnsFail[strings.ToLower(strings.TrimSuffix(host, "."))] = fail
	n.mu.Unlock()
}

// LookupIPAddr implements the dispatcher's resolver seam.
func (n *Net) LookupIPAddr(ctx context.Context, host string) ([]net.IPAddr, error) {
	out, err := n.lookup(host)
	if n.OnLookup != nil {
		var ips []net.IP
		for _, a := range out {
			ips = append(ips, a.IP)
		}
		n.OnLookup(strings.ToLower(strings.TrimSuffix(host, ".")), ips, err != nil)
	}
	return out, err
}

func (n *Net) lookup(host string) ([]net.IPAddr, error) {
	n.mu.Lock()
	defer n.mu.Unlock()
	n.Lookups++
	h := strings.ToLower(strings.TrimSuffix(host, "."))
	if n.dnsFail[h] {
		n.Counts["dns.fail"]++
		n.lastAns[h] = []string{"<lookup failed>"}
		return nil, &net.DNSError{Err: "no such host", Name: host, IsNotFound: true}
	}
	list := n.answers[h]
	if len(list) == 0 {
		// default: a public address derived from the name
		ip := net.IPv4(93, 184, byte(len(h)), byte(hashByte(h)))
		n.lastAns[h] = []string{ip.String()}
		return []net.IPAddr{{IP: ip}}, nil
	}
	i := n.answerIdx[h]
	if i >= len(list) {
		i = len(list) - 1
	} else {
		n.answerIdx[h] = i + 1
		if i > 0 {
			n.Counts["dns.change"]++
		}
	}
	if len(list[i]) == 0 {
		// an empty answer in the sequence: this lookup fails (resolver outage, timeout), later ones may succeed
		n.Counts["dns.fail_transient"]++
		n.lastAns[h] = []string{"<lookup failed>"}
		return nil, &net.DNSError{Err: "i/o timeout", Name: host, IsTimeout: true, IsTemporary: true}
	}
	var out []net.IPAddr
	var strs []string
	for _, ip := range list[i] {
		out = append(out, net.IPAddr{IP: ip})
		strs = append(strs, ip.String())
	}
	n.lastAns[h] = strs
	return out, nil
}

func hashByte(s string) int {
	h := 7
	for i := 0; i < len(s); i++ {
		h = (h*31 + int(s[i])) % 251
	}
	return h + 1
}

type timeoutErr struct{}

func (timeoutErr) Error() string   { return "simnet: i/o timeout (deadline exceeded)" }
func (timeoutErr) Timeout() bool   { return true }
func (timeoutErr) Temporary() bool { return true }

// RoundTrip implements http.RoundTripper.
func (n *Net) RoundTrip(req *http.Request) (*http.Response, error) {
	var body []byte
	if req.Body != nil {
		body, _ = io.ReadAll(req.Body)
		_ = req.Body.Close()
	}
	if n.Park != nil {
		n.Park("net.request")
	}
	n.mu.Lock()
	n.seq++
	host := strings.ToLower(req.URL.Host)
	ep := n.endpoints[host]
	if ep == nil {
		ep = n.endpoints[strings.ToLower(req.URL.Hostname())]
	}
	nr := &NetRequest{Seq: n.seq, At: n.clock.Peek(), Method: req.Method, URL: req.URL.String(), Host: req.URL.Host, Path: req.URL.EscapedPath(), Header: req.Header.Clone(), Body: body}
	nr.Resolved = append([]string(nil), n.lastAns[strings.ToLower(strings.TrimSuffix(req.URL.Hostname(), "."))]...)
	var act NetAction
	switch {
	case ep == nil:
		act = NetAction{Kind: "refused"}
	case ep.Handler != nil:
		n.mu.Unlock()
		a := ep.Handler(nr)
		n.mu.Lock()
		if a != nil {
			act = *a
		} else {
			act = NetAction{Kind: "status", Status: 200}
		}
	case len(ep.Script) == 0:
		act = NetAction{Kind: "status", Status: 200}
	default:
		i := ep.used
		if i >= len(ep.Script) {
			i = len(ep.Script) - 1
		}
		ep.used++
		act = ep.Script[i]
	}
	nr.Action = act
	n.Counts["net."+act.Kind]++
	// a refused connection never reaches the target: do not log it as received
	if act.Kind != "refused" && act.Kind != "dnsfail" {
		n.Log = append(n.Log, nr)
	}
	n.mu.Unlock()
	if n.OnRequest != nil {
		n.OnRequest(nr, act.Kind != "refused" && act.Kind != "dnsfail")
	}

	if act.Delay > 0 {
		if n.OnDelay != nil {
			n.OnDelay(act.Delay)
		}
		n.clock.Advance(act.Delay)
	}
	var resp *http.Response
	var err error
	switch act.Kind {
	case "refused":
		err = &net.OpError{Op: "dial", Net: "tcp", Err: errors.New("connection refused")}
	case "dnsfail":
		err = &net.DNSError{Err: "no such host", Name: req.URL.Hostname(), IsNotFound: true}
	case "reset":
		err = &net.OpError{Op: "read", Net: "tcp", Err: errors.New("connection reset by peer")}
	case "resp_lost":
		err = io.ErrUnexpectedEOF
	case "hang":
		// the caller's deadline passes: advance simulated time by what is left
		if dl, ok := req.Context().Deadline(); ok {
			_ = dl // real-time deadline; simulated time advances by the configured timeout (Delay carries it)
		}
		err = timeoutErr{}
	case "redirect":
		resp = mkResp(req, act.Status, map[string]string{"Location": act.Location})
	default:
		resp = mkResp(req, act.Status, act.Headers)
		if act.BodyCut {
			n.mu.Lock()
			n.Counts["net.body_cut"]++
			n.mu.Unlock()
			resp.Body, resp.ContentLength = &cutBody{}, 64
		}
	}
	if n.Park != nil {
		n.Park("net.response")
	}
	return resp, err
}

func mkResp(req *http.Request, status int, hdr map[string]string) *http.Response {
	h := http.Header{}
	keys := make([]string, 0, len(hdr))
	for k := range hdr {
		keys = append(keys, k)
	}
	sort.Strings(keys)
	for _, k := range keys {
		h.Set(k, hdr[k])
	}
	return &http.Response{
		StatusCode: status, Status: fmt.Sprintf("%d %s", status, http.StatusText(status)),
		Proto: "HTTP/1.1", ProtoMajor: 1, ProtoMinor: 1,
		Header: h, Body: io.NopCloser(bytes.NewReader(nil)), ContentLength: 0, Request: req,
	}
}

// RequestsTo lists logged requests whose host matches.
func (n *Net) RequestsTo(host string) []*NetRequest {
	n.mu.Lock()
	defer n.mu.Unlock()
	var out []*NetRequest
	for _, r := range n.Log {
		if strings.EqualFold(r.Host, host) {
			out = append(out, r)
		}
	}
	return out
}
