package sim

import (
	"encoding/json"
	"fmt"
	"strings"
	"time"

	"pgregory.net/rapid"
)

type DispatchProfile struct {
	Egress      bool
	Sign        bool
	Interleave  bool
	Crash       bool // SQLite on the simulated disk; kill / power loss at drawn disk operations inside worker cycles and between steps
	StoreFaults bool // the store refuses single calls of the dispatcher (settlements, attempt records)
	Batchy      bool // single-target routes with concurrency > 1 (micro-batches), slow and hanging targets
	Backends    []string
}

var biasedStatuses = []int{200, 200, 201, 204, 299, 199, 100, 101, 300, 301, 304, 399, 400, 401, 404, 407, 408, 409, 428, 429, 430, 499, 500, 502, 503, 599}

// genLongRetry: a retry budget long enough to walk the exponential schedule far
// beyond the cap (attempt numbers in the dozens).
func genLongRetry(t *rapid.T) *RetrySpec {
	base := rapid.SampledFrom([]time.Duration{time.Second, 2 * time.Second, time.Minute}).Draw(t, "lbase")
	return &RetrySpec{Max: rapid.SampledFrom([]int{36, 40, 64, 70}).Draw(t, "lmax"), Base: base,
		Cap: rapid.SampledFrom([]time.Duration{2 * time.Minute, time.Hour}).Draw(t, "lcap"), Jitter: rapid.SampledFrom([]float64{0, 0.2}).Draw(t, "ljitter")}
}

func genRetry(t *rapid.T) *RetrySpec {
	base := rapid.SampledFrom([]time.Duration{500 * time.Millisecond, time.Second, 2 * time.Second}).Draw(t, "base")
	capv := rapid.SampledFrom([]time.Duration{base, 2 * base, 3 * base, 30 * time.Second}).Draw(t, "cap")
	return &RetrySpec{Max: rapid.IntRange(1, 4).Draw(t, "max"), Base: base, Cap: capv, Jitter: rapid.SampledFrom([]float64{0, 0.2, 0.5, 1}).Draw(t, "jitter")}
}

func genScript(t *rapid.T, timeout time.Duration, egress bool, host string) []NetAction {
	n := rapid.IntRange(1, 5).Draw(t, "script_len")
	var out []NetAction
	for i := 0; i < n; i++ {
		k := rapid.IntRange(0, 13).Draw(t, "act")
		if egress && i == 0 && rapid.IntRange(0, 3).Draw(t, "redir_first") == 0 {
			k = 12 // redirects matter most as the first answer of a target
		}
		switch {
		case k < 8:
			out = append(out, NetAction{Kind: "status", Status: rapid.SampledFrom(biasedStatuses).Draw(t, "status")})
			if rapid.IntRange(0, 7).Draw(t, "bodycut") == 0 {
				// the answer's status line and headers arrive, its body does not: the status stands
				out[len(out)-1].BodyCut = true
			}
		case k == 8:
			out = append(out, NetAction{Kind: "refused"})
		case k == 9:
			out = append(out, NetAction{Kind: "reset"})
		case k == 10:
			out = append(out, NetAction{Kind: "resp_lost"})
		case k == 11:
			out = append(out, NetAction{Kind: "hang", Delay: timeout})
		case k == 12 && egress:
			out = append(out, NetAction{Kind: "redirect", Status: rapid.SampledFrom([]int{301, 302, 307, 308}).Draw(t, "rstatus"),
				Location: rapid.SampledFrom([]string{"https://t9.example/next", "/relative", "/relative", "http://" + host + "/plain", "https://" + host + "/again", "HTTPS://" + strings.ToUpper(host) + "/upper",
					"http://t9.example/plain", "https://10.0.0.5/internal", "https://evil.example/x", "https://internal.corp/x", "ftp://t9.example/f"}).Draw(t, "location")})
		default:
			out = append(out, NetAction{Kind: "status", Status: 200})
		}
	}
	return out
}

var egressTargets = []string{
	"https://t0.example/hook", "https://t1.example/hook", "http://t0.example/hook", "https://T0.Example./hook",
	"https://user:pw@t1.example/hook", "https://t1.example:8443/hook", "https://10.1.2.3/hook", "https://127.0.0.1/hook",
	"https://[::1]/hook", "https://[::ffff:10.0.0.1]/hook", "https://203.0.113.10/hook", "https://internal.corp/hook",
	"https://sub.allowed.example/hook", "https://allowed.example/hook", "https://169.254.169.254/latest",
}

func boolp(b bool) *bool { return &b }

func GenDispatchProgram(t *rapid.T, prof DispatchProfile) *Program {
	p := &Program{World: "dispatch"}
	spec := &SysSpec{Backend: rapid.SampledFrom(prof.Backends).Draw(t, "backend")}
	sys := dispatchSys{Spec: spec, Scripts: map[string][]NetAction{}, Seed: int64(rapid.IntRange(1, 1<<16).Draw(t, "jitter_seed"))}
	timeout := rapid.SampledFrom([]time.Duration{30 * time.Second, time.Minute}).Draw(t, "timeout")
	spec.DefaultTimeout = timeout
	if rapid.Bool().Draw(t, "default_retry") {
		spec.DefaultRetry = genRetry(t)
	}
	if prof.Sign {
		until := int64(3600)
		spec.Secrets = []SecretSpec{
			{ID: "K1", Value: "sign-key-1", ValidFrom: -7200, ValidUntil: &until},
			{ID: "K2", Value: "sign-key-2", ValidFrom: 1800},
			{ID: "K0", Value: "sign-key-0", ValidFrom: -7200, ValidUntil: &until}, // ties with K1 on valid_from
			{ID: "K3", Value: "sign-key-3", ValidFrom: 7200},
		}
		// validity bounds off the whole second: an attempt can fall after a bound and inside the same second
		spec.SecretFracMS = rapid.SampledFrom([]int{0, 0, 250, 500, 750}).Draw(t, "secret_frac_ms")
	}
	if prof.Egress {
		e := &EgressSpec{}
		if rapid.Bool().Draw(t, "https_only?") {
			e.HTTPSOnly = boolp(rapid.Bool().Draw(t, "https_only"))
		}
		if rapid.IntRange(0, 3).Draw(t, "redirects?") != 0 {
			e.Redirects = boolp(rapid.IntRange(0, 3).Draw(t, "redirects") != 0)
		}
		if rapid.Bool().Draw(t, "rebind?") {
			e.Rebind = boolp(rapid.Bool().Draw(t, "rebind"))
		}
		switch rapid.IntRange(0, 4).Draw(t, "allow") {
		case 0:
			e.Allow = []string{"*.example"}
		case 1:
			e.Allow = []string{"t0.example", "t9.example", "203.0.113.0/24"}
		case 2:
			e.Allow = []string{"*"}
		}
		switch rapid.IntRange(0, 4).Draw(t, "deny") {
		case 0:
			e.Deny = []string{"evil.example"}
		case 1:
			e.Deny = []string{"10.0.0.0/8", "169.254.0.0/16"}
		case 2:
			e.Deny = []string{"*.corp", "t1.example"}
		}
		spec.Egress = e
		sys.DNS = map[string][][]string{}
		for _, h := range []string{"t0.example", "t1.example", "t9.example", "internal.corp", "evil.example", "allowed.example", "sub.allowed.example"} {
			switch rapid.IntRange(0, 13).Draw(t, "dns."+h) {
			case 12:
				// the resolver answers, then fails (an outage), then answers again: a check whose lookup
				// fails sends nothing, whatever an earlier lookup said
				sys.DNS[h] = [][]string{{"93.184.216.34"}, {}, {"93.184.216.34"}}
			case 13:
				sys.DNS[h] = [][]string{{"93.184.216.34"}, {"93.184.216.34"}, {}}
			case 10, 11:
				// an address at the edge of an address class, alone or next to a public one, in the
				// first answer or in a later one (the answer a redirect hop or a redelivery gets)
				a := rapid.SampledFrom(egressEdgeAddrs).Draw(t, "dns.edge."+h)
				ans := []string{a}
				switch rapid.IntRange(0, 3).Draw(t, "dns.edgeshape."+h) {
				case 0:
					ans = []string{"93.184.216.34", a}
				case 1:
					ans = []string{a, "2001:db8::5"}
				}
				if rapid.IntRange(0, 3).Draw(t, "dns.edgelater."+h) == 0 {
					sys.DNS[h] = [][]string{{"93.184.216.34"}, ans}
				} else {
					sys.DNS[h] = [][]string{ans}
				}
			case 6:
				sys.DNS[h] = [][]string{{"93.184.216.34"}, {"169.254.169.254"}}
			case 7:
				sys.DNS[h] = [][]string{{"93.184.216.34"}, {"93.184.216.34"}, {"10.0.0.9"}}
			case 0:
				sys.DNS[h] = [][]string{{"10.0.0.7"}}
			case 1:
				sys.DNS[h] = [][]string{{"198.51.100.4", "192.168.1.1"}}
			case 2:
				sys.DNS[h] = [][]string{{"198.51.100.4"}, {"127.0.0.1"}}
			case 3:
				sys.DNS[h] = [][]string{{"2001:db8::5"}, {"fe80::1"}}
			case 4:
				sys.DNS[h] = [][]string{{"::ffff:10.0.0.1"}}
			case 5:
				sys.DNSFail = append(sys.DNSFail, h)
			}
		}
	} else if rapid.IntRange(0, 5).Draw(t, "dnsfail?") == 0 {
		sys.DNSFail = append(sys.DNSFail, "t1.example")
	}
	nr := rapid.IntRange(1, 2).Draw(t, "routes")
	for i := 0; i < nr; i++ {
		r := RouteSpec{Path: fmt.Sprintf("/d%d", i), Concurrency: rapid.IntRange(1, 4).Draw(t, "concurrency")}
		nt := rapid.IntRange(1, 3).Draw(t, "targets")
		for j := 0; j < nt; j++ {
			d := DeliverSpec{URL: fmt.Sprintf("https://t%d.example/hook%d", j, i)}
			if prof.Sign && rapid.IntRange(0, 2).Draw(t, "urlshape?") == 0 {
				// paths with escaped characters and query strings: the signed
				// string carries the escaped path as the target receives it
				d.URL += rapid.SampledFrom([]string{"/with%20space", "/a%2Fb", "/100%25", "/caf%C3%A9", "?tenant=a&x=1", "/with%20space?q=%3D", "/plus+sign", "/semi;colon", "//double"}).Draw(t, "urlshape")
			}
			if prof.Egress {
				d.URL = rapid.SampledFrom(egressTargets).Draw(t, "url")
				dup := false
				for _, o := range r.Deliver {
					if o.URL == d.URL {
						dup = true
					}
				}
				if dup {
					continue
				}
			}
			if rapid.Bool().Draw(t, "own_retry") {
				d.Retry = genRetry(t)
			}
			if prof.Sign && rapid.IntRange(0, 3).Draw(t, "sign?") != 0 {
				sg := &SignSpec{}
				if rapid.IntRange(0, 3).Draw(t, "inline?") == 0 {
					sg.Secret = "inline-sign-key"
				} else {
					sg.SecretRefs = rapid.SampledFrom([][]string{{"K1", "K2"}, {"K0", "K1"}, {"K1", "K2", "K3"}, {"K3"}, {"K2"}}).Draw(t, "refs")
					sg.Selection = rapid.SampledFrom([]string{"", "newest_valid", "oldest_valid"}).Draw(t, "selection")
				}
				if rapid.IntRange(0, 3).Draw(t, "hdrs?") == 0 {
					sg.SigHeader, sg.TSHeader = "X-Sig", "X-Sig-Ts"
				}
				d.Sign = sg
			}
			r.Deliver = append(r.Deliver, d)
		}
		if len(r.Deliver) == 0 {
			r.Deliver = []DeliverSpec{{URL: "https://t0.example/hook"}}
		}
		spec.Routes = append(spec.Routes, r)
	}
	for _, h := range []string{"t0.example", "t1.example", "t2.example", "t9.example", "t1.example:8443", "203.0.113.10", "10.1.2.3", "127.0.0.1", "[::1]", "internal.corp", "evil.example", "allowed.example", "sub.allowed.example", "10.0.0.5", "169.254.169.254", "[::ffff:10.0.0.1]"} {
		if rapid.IntRange(0, 2).Draw(t, "script?") != 0 || h == "t0.example" {
			sys.Scripts[h] = genScript(t, timeout, prof.Egress, h)
		} else {
			sys.Scripts[h] = []NetAction{{Kind: "status", Status: 200}}
		}
	}
	if !prof.Egress && !prof.Sign && rapid.IntRange(0, 11).Draw(t, "long_retry?") == 0 {
		// one persistently failing target with a long retry budget
		spec.Routes = spec.Routes[:1]
		spec.Routes[0].Deliver = []DeliverSpec{{URL: "https://t0.example/hook0", Retry: genLongRetry(t)}}
		spec.Routes[0].Concurrency = 1
		sys.Scripts["t0.example"] = []NetAction{{Kind: "status", Status: rapid.SampledFrom([]int{503, 500, 429, 408}).Draw(t, "sticky")}}
	}
	batchy := prof.Batchy || (!prof.Egress && rapid.IntRange(0, 7).Draw(t, "batchy?") == 0)
	if batchy {
		// micro-batches: one target, several workers, a target that is slow or
		// hangs to the deadline again and again
		spec.Routes = spec.Routes[:1]
		spec.Routes[0].Deliver = spec.Routes[0].Deliver[:1]
		spec.Routes[0].Concurrency = rapid.IntRange(2, 6).Draw(t, "bconc")
		host := "t0.example"
		if u := spec.Routes[0].Deliver[0].URL; strings.Contains(u, "://") {
			host = strings.ToLower(strings.SplitN(strings.SplitN(u, "://", 2)[1], "/", 2)[0])
		}
		n := rapid.IntRange(2, 8).Draw(t, "bscript")
		var sc []NetAction
		for i := 0; i < n; i++ {
			switch rapid.IntRange(0, 5).Draw(t, "bact") {
			case 0, 1, 2:
				sc = append(sc, NetAction{Kind: "hang", Delay: timeout})
			case 3:
				sc = append(sc, NetAction{Kind: "status", Status: 200, Delay: timeout - time.Second})
			case 4:
				sc = append(sc, NetAction{Kind: "status", Status: rapid.SampledFrom([]int{200, 503, 429, 400}).Draw(t, "bstatus")})
			default:
				sc = append(sc, NetAction{Kind: "status", Status: 200})
			}
		}
		sys.Scripts[host] = sc
	}
	if prof.Crash {
		sys.Crash = true
		spec.Backend = "sqlite"
		p.World = "dispatchcrash"
	}
	p.Sys, _ = json.Marshal(sys)
	p.Offset = rapid.SampledFrom([]int64{0, 500_000_000, 700_000_000, 999_999_999, 200_000_000}).Draw(t, "clock_offset")
	advances := []time.Duration{100 * time.Millisecond, 500 * time.Millisecond, time.Second, 2 * time.Second, 4 * time.Second, 30 * time.Second, 29 * time.Minute, 30 * time.Minute, 59 * time.Minute, time.Hour, 61 * time.Minute}
	n := rapid.IntRange(2, 25).Draw(t, "nsteps")
	p.Steps = append(p.Steps, Step{Op: "publish", Batch: 0})
	if batchy {
		for i := rapid.IntRange(2, 8).Draw(t, "bpub"); i > 0; i-- {
			p.Steps = append(p.Steps, Step{Op: "publish", Batch: 0})
		}
	}
	for i := 0; i < n; i++ {
		k := rapid.IntRange(0, 19).Draw(t, "kind")
		if prof.StoreFaults && rapid.IntRange(0, 9).Draw(t, "storefault?") == 0 {
			p.Steps = append(p.Steps, Step{Op: "storefault", Batch: rapid.IntRange(1, 2).Draw(t, "sf.n"),
				Reason: rapid.SampledFrom([]string{"AckBatch", "NackBatch", "MarkDeadBatch", "Ack", "Nack", "MarkDead", "RecordAttempt", "AckBatch", "NackBatch"}).Draw(t, "sf.method")})
		}
		if prof.Crash && rapid.IntRange(0, 14).Draw(t, "crashstep?") == 0 {
			p.Steps = append(p.Steps, Step{Op: "crash", Image: rapid.SampledFrom([]string{"kill", "powerloss"}).Draw(t, "cs.image"), ImgSeed: int64(rapid.IntRange(0, 1<<20).Draw(t, "cs.seed"))})
		}
		switch {
		case k < 5:
			st := Step{Op: "publish", Batch: rapid.IntRange(0, 1).Draw(t, "route"), Pad: rapid.IntRange(0, 3).Draw(t, "extra") == 0}
			if rapid.IntRange(0, 3).Draw(t, "lowerhdr") == 2 {
				st.Reason = "lower"
			} else if rapid.IntRange(0, 5).Draw(t, "orphan") == 3 {
				st.Reason = "orphan"
			}
			p.Steps = append(p.Steps, st)
		case k < 13:
			p.Steps = append(p.Steps, Step{Op: "tick", Batch: rapid.IntRange(0, 7).Draw(t, "worker")})
		case k < 17 || !prof.Interleave:
			p.Steps = append(p.Steps, Step{Op: "advance", D: rapid.SampledFrom(advances).Draw(t, "d")})
		default:
			s := Step{Op: "interleave", Armed: []string{"net.request", "net.response"}}
			s.Sched = rapid.SliceOfN(rapid.IntRange(0, 7), 0, 24).Draw(t, "sched")
			if rapid.IntRange(0, 2).Draw(t, "stall?") == 0 {
				s.D = rapid.SampledFrom([]time.Duration{time.Second, 31 * time.Second, 2 * time.Minute, 10 * time.Minute}).Draw(t, "stall")
				s.Batch = rapid.IntRange(0, 8).Draw(t, "stall_at")
			}
			p.Steps = append(p.Steps, s)
		}
	}
	if prof.Crash {
		// the process dies at the k-th disk operation of a step (inside a worker's
		// dequeue, attempt record or settlement, or inside a publish)
		for i := rapid.SampledFrom([]int{1, 1, 2, 3}).Draw(t, "nfaults"); i > 0; i-- {
			p.Faults = append(p.Faults, Fault{Site: "disk", AfterStep: rapid.IntRange(0, len(p.Steps)-1).Draw(t, "f.step"), Hit: rapid.IntRange(0, 40).Draw(t, "f.hit"),
				Action:  rapid.SampledFrom([]string{"crash.kill", "crash.kill", "crash.powerloss"}).Draw(t, "f.action"),
				ImgSeed: int64(rapid.IntRange(0, 1<<20).Draw(t, "f.imgseed"))})
		}
	}
	return p
}

// egressEdgeAddrs: first, last and just-outside addresses of the classes dns_rebind_protection names
// (loopback, private, link-local, multicast, unspecified; IPv4, IPv6, IPv4-mapped).
var egressEdgeAddrs = []string{
	"127.0.0.1", "127.255.255.254", "128.0.0.1", "126.255.255.255",
	"10.0.0.0", "10.255.255.255", "11.0.0.0", "9.255.255.255",
	"172.16.0.0", "172.31.255.255", "172.32.0.0", "172.15.255.255",
	"192.168.0.0", "192.168.255.255", "192.169.0.0", "192.167.255.255",
	"169.254.0.0", "169.254.255.255", "169.255.0.0", "169.253.255.255",
	"224.0.0.1", "239.255.255.255", "223.255.255.255", "0.0.0.0",
	"::", "::1", "::2",
	"fe80::", "fe80::1", "fe80:0:0:1::1", "fe80:1::1", "fe90::1", "febf:ffff:ffff:ffff:ffff:ffff:ffff:ffff", "fec0::1", "fe7f:ffff::1",
	"fc00::", "fc00::1", "fdff:ffff::1", "fe00::1", "fbff:ffff::1",
	"ff00::", "ff02::1", "ff0e::1", "ffff::1", "feff::1",
	"::ffff:127.0.0.1", "::ffff:169.254.1.1", "::ffff:192.168.0.1", "::ffff:224.0.0.1", "::ffff:0.0.0.0", "::ffff:93.184.216.34",
}

func init() {
	both := []string{"memory", "sqlite"}
	dispStub := map[string]string{
		"dispatcher.PushDispatcher + HTTPDeliverer + egress policy + net/http client redirect logic, queue store, config compile/wiring": "real (node assembled by app.VerifNewNode)",
		"network / DNS":          "simulated (simnet Transport + Resolver: scripted statuses, answers whose body is cut short, refused, reset, response lost, hang to the deadline, redirects, DNS failure / changing answers)",
		"clock":                  "simulated; a 'hang' advances it by the configured timeout and returns the deadline error at once",
		"goroutine interleaving": "dispatcher workers are adopted as tasks and run one at a time; interleaved at net.request / net.response points",
		"jitter":                 "global math/rand re-seeded from the program (go:debug randseednop=0)",
	}
	reg := func(prop string, prof DispatchProfile, rule string, quick, thorough int) {
		Register(&CheckSpec{
			Prop: prop, World: "dispatch",
			Gen:        func(t *rapid.T) *Program { return GenDispatchProgram(t, prof) },
			Run:        RunDispatchProgram,
			NonTrivial: func(p *Program, r *Result) bool { return r.Probes["dispatch.dequeue.nonempty"] >= 1 },
			Rule:       rule + "; non-trivial = at least one delivery attempted; distinct = distinct (step-kind sequence, interleaving) shapes",
			RealStub:   dispStub,
			Quick:      quick, Thorough: thorough,
		})
	}
	reg("C06", DispatchProfile{Backends: both, Interleave: true, StoreFaults: true},
		"deliver routes (1-3 targets, concurrency 1-4, generated retry settings), per-target behaviour scripts (status 100-599 biased to boundaries, refused, reset, response lost, hang to the deadline, an answer whose body breaks off short of its Content-Length after status line and headers, DNS failure, recovery after failures), worker cycles sequential and interleaved with stalls; oracle: independent classification table per delivery, settlement = recorded outcome, nack delay within [d(1-j), d(1+j)], sends per cycle <= max+1, one attempt record per delivery, and after faults stop every message ends delivered or dead; store faults: single calls of the dispatcher (batch and single settlements, attempt records) are refused by the store at drawn points - every recorded delivery outcome still reaches the store through a settlement call unless the call of last resort was itself refused (C06.settle.dropped)", 1200, 50000)
	reg("C05", DispatchProfile{Backends: both, Interleave: true, Batchy: true},
		"dispatcher part: every retry nack the dispatcher issues carries the delay its own message's attempt calls for (batched settlements included: micro-batches with messages on different attempt numbers and with jitter), so no message is offered before its own not-before time or hidden beyond it; after the faults stop every message is delivered or dead", 800, 30000)
	reg("C16", DispatchProfile{Backends: both, Egress: true},
		"generated egress policies (https_only, redirects, rebind protection, allow/deny with exact/*/*.domain/CIDR) x target and redirect URLs (schemes, userinfo, ports, IP literals incl. v6 and v4-mapped, trailing dots, case) x resolver answers (private/public mixes, answers changing between lookups, failures); oracle: independent policy predicate over every request that reached simnet including each redirect hop, under the answers the resolver gave for that check; denied delivery sent nothing and is dead as policy_denied", 1200, 50000)
	reg("C17", DispatchProfile{Backends: both, Sign: true},
		"push part: signed targets with inline secret or secret_ref versions (overlapping, adjacent, tied valid_from), both selection modes; clock walked across window boundaries; oracle: HMAC recomputed independently from the received request (method, escaped path, timestamp header, body) under the version the reference selection picks; no valid version => nothing reached the transport", 1200, 40000)
	reg("C03", DispatchProfile{Backends: both, Interleave: true, Batchy: true},
		"dispatcher part: single-target routes with concurrency 2-6 (micro-batches of up to 4 leases per worker), targets that hang to the deadline or answer just inside it, worker cycles sequential and interleaved; oracle: every message a worker's dequeue returns was offerable in the model (no unexpired lease of another worker), and unless the simulator stalled the worker every delivery starts and is settled before the worker's own lease runs out (the lease the dispatcher asks for covers a whole sequential micro-batch)", 1200, 40000)
	for _, pr := range []string{"C01", "C05", "C06"} {
		pr := pr
		Register(&CheckSpec{
			Prop: pr, World: "dispatchcrash",
			Gen: func(t *rapid.T) *Program {
				return GenDispatchProgram(t, DispatchProfile{Backends: []string{"sqlite"}, Interleave: true, Crash: true})
			},
			Run: RunDispatchProgram,
			NonTrivial: func(p *Program, r *Result) bool {
				return r.Probes["dispatch.dequeue.nonempty"] >= 1 && r.Faults["crash.kill"]+r.Faults["crash.powerloss"] > 0
			},
			Rule:     "push path under process death: deliver routes on SQLite over the simulated disk, worker cycles sequential and interleaved, a kill or power loss at the k-th disk operation inside a worker's dequeue / attempt record / settlement or inside a publish, and between steps; a fresh node (new dispatcher) starts on the post-crash image; oracle: node starts, integrity_check ok, every message that was stored is still there (queued, leased by the dead process, dead-lettered) or one of its deliveries was answered with 2xx, nothing else appears; the queue model continues from the restart listing, leases of the dead process expire on the simulated clock, and after the faults stop every message ends delivered or dead; non-trivial = at least one delivery attempted and one crash",
			RealStub: dispStub,
			Level:    "fault_enumeration",
			Quick:    600, Thorough: 30000,
		})
	}
	reg("C07", DispatchProfile{Backends: both},
		"push part: body received by the target equals the accepted payload, stored headers are passed on, across retries and redeliveries", 800, 30000)
}
