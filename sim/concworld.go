package sim

// W-conc: concurrent callers on one SQLite store under the cooperative
// scheduler, with a crash at an arbitrary disk operation of the concurrent block.
//
// A program is a sequential prefix (sets up queued / leased / expired / dead
// messages and, usually, a due retention pass) followed by one concurrent block:
// two caller tasks with one to three store calls each. Every statement of the
// instrumented SQLiteStore functions is a scheduling point, so the seeded choice
// sequence decides which caller runs between any two statements of another
// caller (as far as the store lets it: a caller that waits for the pooled
// connection or a mutex is detected as blocked and left alone until it wakes).
//
// Oracle: the recorded history (call / return stamps in scheduler steps,
// canonical results) must be linearizable with respect to the store's own
// sequential behaviour: some total order that respects program order and
// real-time precedence, executed call by call on a fresh store after the same
// prefix, yields the same results and the same final content. Sequential
// behaviour itself is judged against the contract model by W-store. With a
// crash, calls that returned before the crash instant are acknowledged and must
// be reflected in the content found after restart; calls in flight may or may
// not be; calls invoked afterwards never happened.

import (
	"context"
	"fmt"
	"hash/fnv"
	"os"
	"path/filepath"
	"sort"
	"strings"
	"sync"
	"time"

	"github.com/nuetzliches/hookaido/internal/queue"
	"pgregory.net/rapid"
)

var (
	concTmplOnce sync.Once
	concTmpl     []byte
	concTmplErr  error
)

// concOpen opens a SQLite store on a copy of a template database: one that the
// product's own migration created and a clean Close left behind, i.e. the state
// of a node that has run before. (Opening from nothing costs four times as much
// and a sweep opens hundreds of stores; fresh migrations stay W-crash's job.)
func concPlaceTemplate(clock *Clock, dbPath string) error {
	concTmplOnce.Do(func() {
		dir, err := ScratchDir("tmpl-")
		if err != nil {
			concTmplErr = err
			return
		}
		defer os.RemoveAll(dir)
		_, cl, err := openStore(QConfig{Backend: "sqlite"}, clock, filepath.Join(dir, "q.db"))
		if err != nil {
			concTmplErr = err
			return
		}
		if err := cl(); err != nil {
			concTmplErr = err
			return
		}
		concTmpl, concTmplErr = os.ReadFile(filepath.Join(dir, "q.db"))
	})
	if concTmplErr != nil {
		return concTmplErr
	}
	return os.WriteFile(dbPath, concTmpl, 0o644)
}

func concOpen(cfg QConfig, clock *Clock, dbPath string) (queue.Store, func() error, error) {
	if cfg.Backend == "memory" {
		return openStore(cfg, clock, "")
	}
	if err := concPlaceTemplate(clock, dbPath); err != nil {
		return nil, nil, err
	}
	return openStore(cfg, clock, dbPath)
}

type concEnv struct {
	store  queue.Store
	clock  *Clock
	mu     sync.Mutex
	names  map[string]string // lease id -> L(m#a)
	shared []string          // leases granted during the prefix, in grant order
	ref    bool              // sequential reference: a long-poll dequeue is a dequeue at the instant it is placed
}

type concView struct {
	env   *concEnv
	own   []string
	store queue.Store // this caller's own handle on the database (nil: the shared one)
	sel   []string    // reference only: ids selected by the first half of a by-filter call
}

// By-filter operator calls select and then update, in two steps, and the
// properties do not ask for more: C14 speaks about which messages a call touches
// for given queue contents, not about atomicity against other callers. The
// reference therefore executes such a call as two atomic calls - a selection
// (newest first, within the states the operation is defined for, as the
// documentation says) and the id-based operation on what was selected - which
// other callers' calls may separate. What has to hold in every interleaving is
// what the id-based operation guarantees: only messages in a state the
// operation covers at the moment of the update are changed and counted.
var filterOpStates = map[string][]queue.State{
	"cancel_f":  {queue.StateQueued, queue.StateLeased, queue.StateDead},
	"requeue_f": {queue.StateDead, queue.StateCanceled},
	"resume_f":  {queue.StateCanceled},
}

func (v *concView) leaseID(ref int) string {
	v.env.mu.Lock()
	defer v.env.mu.Unlock()
	all := append(append([]string(nil), v.env.shared...), v.own...)
	if ref < 0 || len(all) == 0 {
		switch ref {
		case -1:
			return ""
		case -2:
			return "  "
		}
		return fmt.Sprintf("lease_unknown_%d", -ref)
	}
	return all[len(all)-1-ref%len(all)]
}

func (e *concEnv) leaseName(id string) string {
	t := strings.TrimSpace(id)
	if t == "" || strings.HasPrefix(t, "lease_unknown") {
		return fmt.Sprintf("%q", id)
	}
	e.mu.Lock()
	defer e.mu.Unlock()
	if n, ok := e.names[t]; ok {
		return n
	}
	return "L?"
}

func off(t time.Time) string {
	if t.IsZero() {
		return "-"
	}
	return t.Sub(Epoch).String()
}

func concErr(err error) string {
	c := errClass(err)
	if strings.HasPrefix(c, "other:") {
		return "error"
	}
	return c
}

// exec performs one store call and returns its canonical result. prefix: the
// leases it grants become visible to every task.
func (v *concView) exec(s Step, prefix bool) string {
	st := v.env.store
	if v.store != nil {
		st = v.store
	}
	switch s.Op {
	case "advance":
		v.env.clock.Advance(s.D)
		return "advance " + s.D.String()
	case "enqueue":
		e := s.Env
		env := queue.Envelope{ID: e.ID, Route: e.Route, Target: e.Target, Payload: []byte("p-" + e.ID)}
		if e.NextOff != nil {
			env.NextRunAt = v.env.clock.Peek().Add(time.Duration(*e.NextOff))
		}
		err := st.Enqueue(env)
		return fmt.Sprintf("enqueue %s %s %s -> %s", e.ID, e.Route, e.Target, concErr(err))
	case "enqueue_batch":
		be := st.(queue.BatchEnqueuer)
		var envs []queue.Envelope
		var ids []string
		for _, e := range s.Items {
			envs = append(envs, queue.Envelope{ID: e.ID, Route: e.Route, Target: e.Target, Payload: []byte("p-" + e.ID)})
			ids = append(ids, e.ID)
		}
		n, err := be.EnqueueBatch(envs)
		return fmt.Sprintf("enqueue_batch %v -> %d %s", ids, n, concErr(err))
	case "dequeue":
		dreq := queue.DequeueRequest{Route: s.Route, Target: s.Target, Batch: s.Batch, LeaseTTL: s.TTL}
		if s.Delay > 0 && !v.env.ref {
			// long poll: the caller waits (blocked, in the scheduler's eyes) until
			// another caller's enqueue wakes it
			dreq.MaxWait = s.Delay
		}
		resp, err := st.Dequeue(dreq)
		var parts []string
		for _, it := range resp.Items {
			name := fmt.Sprintf("L(%s#%d)", it.ID, it.Attempt)
			v.env.mu.Lock()
			v.env.names[it.LeaseID] = name
			if prefix {
				v.env.shared = append(v.env.shared, it.LeaseID)
			} else {
				v.own = append(v.own, it.LeaseID)
			}
			v.env.mu.Unlock()
			parts = append(parts, fmt.Sprintf("%s/%s/until=%s", name, it.State, off(it.LeaseUntil)))
		}
		return fmt.Sprintf("dequeue %q %q b=%d ttl=%s -> [%s] %s", s.Route, s.Target, s.Batch, s.TTL, strings.Join(parts, " "), concErr(err))
	case "ack", "nack", "extend", "dead":
		id := v.leaseID(*s.LeaseRef)
		var err error
		switch s.Op {
		case "ack":
			err = st.Ack(id)
		case "nack":
			err = st.Nack(id, s.Delay)
		case "extend":
			err = st.Extend(id, s.Delay)
		case "dead":
			err = st.MarkDead(id, s.Reason)
		}
		return fmt.Sprintf("%s %s d=%s -> %s", s.Op, v.env.leaseName(id), s.Delay, concErr(err))
	case "ack_batch", "nack_batch", "dead_batch":
		var ids, names []string
		for _, r := range s.LeaseRefs {
			id := v.leaseID(r)
			ids = append(ids, id)
			names = append(names, v.env.leaseName(id))
		}
		var res queue.LeaseBatchResult
		var err error
		switch s.Op {
		case "ack_batch":
			res, err = st.(queue.LeaseBatchStore).AckBatch(ids)
		case "nack_batch":
			res, err = st.(queue.LeaseBatchStore).NackBatch(ids, s.Delay)
		case "dead_batch":
			res, err = st.(queue.LeaseBatchStore).MarkDeadBatch(ids, s.Reason)
		}
		var conf []string
		for _, c := range res.Conflicts {
			conf = append(conf, fmt.Sprintf("%s:%v", v.env.leaseName(c.LeaseID), c.Expired))
		}
		sort.Strings(conf)
		return fmt.Sprintf("%s %v -> ok=%d conflicts=%v %s", s.Op, names, res.Succeeded, conf, concErr(err))
	case "cancel":
		r, err := st.CancelMessages(queue.MessageCancelRequest{IDs: s.IDLits})
		return fmt.Sprintf("cancel %v -> %d %s", s.IDLits, r.Canceled, concErr(err))
	case "requeue":
		r, err := st.RequeueMessages(queue.MessageRequeueRequest{IDs: s.IDLits})
		return fmt.Sprintf("requeue %v -> %d %s", s.IDLits, r.Requeued, concErr(err))
	case "resume":
		r, err := st.ResumeMessages(queue.MessageResumeRequest{IDs: s.IDLits})
		return fmt.Sprintf("resume %v -> %d %s", s.IDLits, r.Resumed, concErr(err))
	case "dlq_requeue":
		r, err := st.RequeueDead(queue.DeadRequeueRequest{IDs: s.IDLits})
		return fmt.Sprintf("dlq_requeue %v -> %d %s", s.IDLits, r.Requeued, concErr(err))
	case "dlq_delete":
		r, err := st.DeleteDead(queue.DeadDeleteRequest{IDs: s.IDLits})
		return fmt.Sprintf("dlq_delete %v -> %d %s", s.IDLits, r.Deleted, concErr(err))
	case "cancel_f", "requeue_f", "resume_f":
		req := queue.MessageManageFilterRequest{Route: s.Route, State: queue.State(s.Reason)}
		var n int
		var err error
		switch s.Op {
		case "cancel_f":
			var r queue.MessageCancelResponse
			r, err = st.CancelMessagesByFilter(req)
			n = r.Canceled
		case "requeue_f":
			var r queue.MessageRequeueResponse
			r, err = st.RequeueMessagesByFilter(req)
			n = r.Requeued
		case "resume_f":
			var r queue.MessageResumeResponse
			r, err = st.ResumeMessagesByFilter(req)
			n = r.Resumed
		}
		return fmt.Sprintf("%s route=%q state=%q -> %d %s", s.Op, s.Route, s.Reason, n, concErr(err))
	case "cancel_f.select", "requeue_f.select", "resume_f.select":
		op := strings.TrimSuffix(s.Op, ".select")
		resp, err := st.ListMessages(queue.MessageListRequest{Route: s.Route, State: queue.State(s.Reason), Order: queue.MessageOrderDesc})
		v.sel = nil
		for _, it := range resp.Items {
			for _, ok := range filterOpStates[op] {
				if it.State == ok {
					v.sel = append(v.sel, it.ID)
				}
			}
		}
		return fmt.Sprintf("%s -> %d %s", s.Op, len(v.sel), concErr(err))
	case "cancel_f.apply", "requeue_f.apply", "resume_f.apply":
		op := strings.TrimSuffix(s.Op, ".apply")
		var n int
		var err error
		if len(v.sel) > 0 {
			switch op {
			case "cancel_f":
				var r queue.MessageCancelResponse
				r, err = st.CancelMessages(queue.MessageCancelRequest{IDs: v.sel})
				n = r.Canceled
			case "requeue_f":
				var r queue.MessageRequeueResponse
				r, err = st.RequeueMessages(queue.MessageRequeueRequest{IDs: v.sel})
				n = r.Requeued
			case "resume_f":
				var r queue.MessageResumeResponse
				r, err = st.ResumeMessages(queue.MessageResumeRequest{IDs: v.sel})
				n = r.Resumed
			}
		}
		return fmt.Sprintf("%s route=%q state=%q -> %d %s", op, s.Route, s.Reason, n, concErr(err))
	case "stats":
		stt, err := st.Stats()
		return fmt.Sprintf("stats -> total=%d %v %s", stt.Total, fmt.Sprint(stt.ByState), concErr(err))
	case "list":
		txt, err := concListing(v.env, st)
		return fmt.Sprintf("list -> %s %s", txt, concErr(err))
	}
	return "unknown op " + s.Op
}

// concListing: the whole content in canonical form. A lease is named after the
// message and attempt it belongs to; if the lease id is one a dequeue of this
// run returned, it has to be that dequeue's.
func concListing(e *concEnv, st queue.Store) (string, error) {
	if ms, ok := st.(*queue.MemoryStore); ok {
		items, leases := ms.VerifSnapshot()
		var rows []string
		for _, it := range items {
			lease := "-"
			if it.LeaseID != "" {
				lease = fmt.Sprintf("L(%s#%d)", it.ID, it.Attempt)
				e.mu.Lock()
				if n, ok := e.names[it.LeaseID]; ok && n != lease {
					lease += "!=" + n
				}
				e.mu.Unlock()
				if leases[it.LeaseID] != it.ID {
					lease += "!=table"
				}
			}
			rows = append(rows, fmt.Sprintf("%s|%s|%s|%s|a%d|recv=%s|next=%s|%s|until=%s|%q|%s", it.ID, it.Route, it.Target, it.State, it.Attempt, off(it.ReceivedAt), off(it.NextRunAt), lease, off(it.LeaseUntil), it.DeadReason, it.Payload))
		}
		// the lease table holds exactly the leases of the stored messages
		stray := 0
		for lid, mid := range leases {
			found := false
			for _, it := range items {
				if it.ID == mid && it.LeaseID == lid {
					found = true
				}
			}
			if !found {
				stray++
			}
		}
		if stray > 0 {
			rows = append(rows, fmt.Sprintf("!=%d stray lease table entries", stray))
		}
		return "{" + strings.Join(rows, "; ") + "}", nil
	}
	s, ok := st.(*queue.SQLiteStore)
	if !ok {
		return "", fmt.Errorf("conc world needs the SQLite or the memory store")
	}
	rs, err := s.VerifDB().QueryContext(context.Background(), `SELECT id, route, target, state, attempt, received_at, next_run_at, COALESCE(lease_id,''), COALESCE(lease_until,0), COALESCE(dead_reason,''), payload FROM queue_items ORDER BY id;`)
	if err != nil {
		return "", err
	}
	defer rs.Close()
	var rows []string
	for rs.Next() {
		var id, route, target, state, leaseID, dead string
		var attempt int
		var recv, next, until int64
		var payload []byte
		if err := rs.Scan(&id, &route, &target, &state, &attempt, &recv, &next, &leaseID, &until, &dead, &payload); err != nil {
			return "", err
		}
		lease := "-"
		if leaseID != "" {
			lease = fmt.Sprintf("L(%s#%d)", id, attempt)
			e.mu.Lock()
			if n, ok := e.names[leaseID]; ok && n != lease {
				lease += "!=" + n
			}
			e.mu.Unlock()
		}
		u := "-"
		if until != 0 {
			u = off(time.Unix(0, until).UTC())
		}
		rows = append(rows, fmt.Sprintf("%s|%s|%s|%s|a%d|recv=%s|next=%s|%s|until=%s|%q|%s", id, route, target, state, attempt, off(time.Unix(0, recv).UTC()), off(time.Unix(0, next).UTC()), lease, u, dead, payload))
	}
	if err := rs.Err(); err != nil {
		return "", err
	}
	return "{" + strings.Join(rows, "; ") + "}", nil
}

type concRec struct {
	Task, Idx int
	Step      Step
	Call, Ret int // scheduler step stamps; Ret < 0: never returned (or returned after the crash instant)
	Out       string
	NoOut     bool // first half of a split by-filter call: nothing to compare
	// Attempts: long-poll dequeue only - the scheduler steps at which the caller
	// set out on each of its attempts (every attempt but the last came back empty)
	Attempts []int
}

// splitFilterCalls: the records as the reference executes them (see
// filterOpStates): a by-filter call becomes selection + application, both
// inside the real call's interval.
func splitFilterCalls(recs []*concRec) []*concRec {
	var out []*concRec
	for _, r := range recs {
		if r.Step.Op == "dequeue" && len(r.Attempts) > 1 && !r.pending() {
			// A long-poll dequeue is as many dequeues as it made attempts, each at
			// its own instant inside the call (an attempt that comes back empty
			// still sweeps expired leases and prunes); all but the last are empty.
			k := len(r.Attempts)
			if k > 60 {
				k = 60
			}
			for j := 0; j < k; j++ {
				c := *r
				c.Idx = 64*r.Idx + j
				c.Step.Delay = 0
				if j > 0 {
					c.Call = r.Attempts[j]
				}
				if j < k-1 {
					c.Ret = r.Attempts[j+1] - 1
					c.Out = strings.SplitN(r.Out, " -> ", 2)[0] + " -> [] ok"
				}
				out = append(out, &c)
			}
			continue
		}
		if _, ok := filterOpStates[r.Step.Op]; !ok {
			c := *r
			c.Idx = 64 * r.Idx
			out = append(out, &c)
			continue
		}
		a, b := *r, *r
		a.Idx, b.Idx = 64*r.Idx, 64*r.Idx+1
		a.Step.Op, b.Step.Op = r.Step.Op+".select", r.Step.Op+".apply"
		a.NoOut = true
		out = append(out, &a, &b)
	}
	return out
}

func (r *concRec) pending() bool { return r.Ret < 0 }

// concRefResult: what the sequential reference produced for one order.
type concRefResult struct {
	outs    []string
	final   string
	trouble string
}

// concReference executes prefix + order sequentially on a fresh store and
// returns every result and the final content.
func concReference(p *Program, prefix []Step, order []*concRec, ntasks int) concRefResult {
	dir, err := ScratchDir("cr-")
	if err != nil {
		return concRefResult{trouble: err.Error()}
	}
	defer os.RemoveAll(dir)
	clock := NewClock(Epoch.Add(time.Duration(p.Offset)))
	clock.Install()
	cfg := p.Store
	if cfg.Backend != "memory" {
		cfg.Backend = "sqlite"
	}
	st, closeFn, err := concOpen(cfg, clock, filepath.Join(dir, "q.db"))
	if err != nil {
		return concRefResult{trouble: "reference store: " + err.Error()}
	}
	defer closeFn()
	env := &concEnv{store: st, clock: clock, names: map[string]string{}, ref: true}
	pv := &concView{env: env}
	for _, s := range prefix {
		pv.exec(s, true)
	}
	views := make([]*concView, ntasks)
	for i := range views {
		views[i] = &concView{env: env}
	}
	if blk := p.Steps[len(p.Steps)-1]; blk.Handles == 2 && cfg.Backend == "sqlite" {
		for i := 1; i < ntasks; i++ {
			h, closeH, err := openStore(cfg, clock, filepath.Join(dir, "q.db"))
			if err != nil {
				return concRefResult{trouble: "reference store, second handle: " + err.Error()}
			}
			defer closeH()
			views[i].store = h
		}
	}
	var r concRefResult
	for _, o := range order {
		r.outs = append(r.outs, views[o.Task].exec(o.Step, false))
	}
	r.final, err = concListing(env, st)
	if err != nil {
		return concRefResult{trouble: "reference listing: " + err.Error()}
	}
	return r
}

// concOrders enumerates the total orders of recs admitted by program order and
// real-time precedence (a before b when a returned before b was called).
func concOrders(recs []*concRec, limit int) [][]*concRec {
	var out [][]*concRec
	used := make([]bool, len(recs))
	var cur []*concRec
	var rec func()
	rec = func() {
		if len(out) >= limit {
			return
		}
		if len(cur) == len(recs) {
			out = append(out, append([]*concRec(nil), cur...))
			return
		}
		for i, r := range recs {
			if used[i] {
				continue
			}
			okToPlace := true
			for j, o := range recs {
				if used[j] || j == i {
					continue
				}
				// o must come first if it precedes r
				if o.Task == r.Task && o.Idx < r.Idx {
					okToPlace = false
					break
				}
				if !o.pending() && o.Ret < r.Call {
					okToPlace = false
					break
				}
			}
			if !okToPlace {
				continue
			}
			used[i] = true
			cur = append(cur, r)
			rec()
			cur = cur[:len(cur)-1]
			used[i] = false
		}
	}
	rec()
	return out
}

// RunConcProgram executes a W-conc program.
func RunConcProgram(p *Program) *Result {
	res := &Result{}
	if p.Store.Backend != "memory" {
		if err := InstallSimDisk(); err != nil {
			return &Result{Trouble: "simdisk: " + err.Error()}
		}
	}
	if len(p.Steps) == 0 || p.Steps[len(p.Steps)-1].Op != "conc" {
		// minimisation may have removed the block: nothing to judge
		res.logf("no concurrent block")
		return res
	}
	prefix, block := p.Steps[:len(p.Steps)-1], p.Steps[len(p.Steps)-1]
	for _, s := range prefix {
		if s.Op == "conc" {
			res.logf("misplaced concurrent block")
			return res
		}
	}
	cache := map[string]concRefResult{}
	if !block.Sweep {
		r, _ := runConcOnce(p, prefix, block, cache)
		return r
	}
	// Sweep: every schedule with one preemption. Caller `who` runs k decisions,
	// then the other caller runs all its calls, then `who` finishes; for every
	// k up to the length of who's calls and both choices of who. If the program
	// asks for a crash, the process dies at the instant the other caller is done
	// (its calls acknowledged, who's call still in flight).
	res.logf("sweep over single-preemption schedules")
	for who := 0; who < len(block.Tasks) && who < 2; who++ {
		for k := 0; k < 400; k++ {
			b := block
			b.Sweep = false
			b.Sched = make([]int, 0, k+400)
			for i := 0; i < k; i++ {
				b.Sched = append(b.Sched, who)
			}
			for i := 0; i < 400; i++ {
				b.Sched = append(b.Sched, 1-who)
			}
			b.CrashAt, b.CrashStep, b.CrashAfterTask = nil, nil, nil
			if block.Image != "" {
				b.CrashAfterTask = intp(1 - who)
			}
			r, steps := runConcOnce(p, prefix, b, cache)
			res.Ops += r.Ops
			for n, c := range r.Probes {
				for i := 0; i < c; i++ {
					res.probe(n)
				}
			}
			for n, c := range r.Faults {
				for i := 0; i < c; i++ {
					res.fault(n)
				}
			}
			res.probe("conc.sweep.schedules")
			res.States = append(res.States, fnvHash(r.Inter))
			if r.Trouble != "" {
				res.Trouble = r.Trouble
				return res
			}
			last := ""
			if len(r.Events) > 0 {
				last = r.Events[len(r.Events)-1]
			}
			var stamps []string
			for _, e := range r.Events {
				if i := strings.Index(e, " t"); i >= 0 && i < 6 && strings.Contains(e, "[") {
					f := strings.Fields(e)
					if len(f) >= 3 {
						stamps = append(stamps, f[1]+f[2])
					}
				}
				if strings.Contains(e, " schedule: ") {
					f := strings.SplitN(e, ":", 3)
					if len(f) == 3 {
						stamps = append(stamps, strings.TrimSpace(f[1]))
						if os.Getenv("VERIF_DEBUG_TRACE") != "" {
							stamps = append(stamps, f[2])
						}
					}
				}
			}
			res.logf("who=t%d k=%d: %s {%s}", who, k, strings.TrimLeft(last, "0123456789 "), strings.Join(stamps, " "))
			if len(r.Violations) > 0 {
				// report the failing schedule as an explicit program
				q := *p
				q.Steps = append(append([]Step(nil), prefix...), b)
				res.Reduced = &q
				res.Violations = r.Violations
				res.logf("failing schedule in full:")
				for _, e := range r.Events {
					res.logf("  | %s", strings.TrimLeft(e, "0123456789 "))
				}
				res.Inter = r.Inter
				return res
			}
			if who >= len(steps) || k >= steps[who] {
				break // who was never preempted: all its decisions were used up
			}
		}
	}
	res.probe("conc.interleaved")
	return res
}

func fnvHash(s string) uint64 {
	h := fnv.New64a()
	h.Write([]byte(s))
	return h.Sum64()
}

// runConcOnce: one execution of the program under one explicit schedule.
// Returns the result and the number of decisions each task took.
func runConcOnce(p *Program, prefix []Step, block Step, cache map[string]concRefResult) (*Result, []int) {
	res := &Result{}
	base, err := ScratchDir("cc-")
	if err != nil {
		return &Result{Trouble: err.Error()}, nil
	}
	defer os.RemoveAll(base)
	cfg := p.Store
	memory := cfg.Backend == "memory"
	if !memory {
		cfg.Backend = "sqlite"
	}
	clock := NewClock(Epoch.Add(time.Duration(p.Offset)))
	clock.Install()
	dir := filepath.Join(base, "gen1")
	if err := os.MkdirAll(dir, 0o755); err != nil {
		return &Result{Trouble: err.Error()}, nil
	}
	if !memory {
		if err := concPlaceTemplate(clock, filepath.Join(dir, "q.db")); err != nil {
			return &Result{Trouble: "template: " + err.Error()}, nil
		}
	}
	// the memory backend has no disk: the Disk object only counts (never sees an
	// operation, never dies), crash options of the block are ignored
	disk := NewDisk(dir)
	if memory {
		block.CrashAt, block.CrashStep, block.CrashAfterTask, block.Image = nil, nil, nil, ""
	}
	st, closeFn, err := openStore(cfg, clock, filepath.Join(dir, "q.db"))
	if err != nil {
		disk.Release()
		return &Result{Trouble: "open store: " + err.Error()}, nil
	}
	released := false
	defer func() {
		if !released {
			disk.Kill()
			_ = closeFn()
			disk.Release()
		}
	}()
	res.logf("conc world backend=%s max_depth=%d policy=%s retention=%s/%s delivered=%s dlq=%s/%d", cfg.Backend, cfg.MaxDepth, cfg.DropPolicy, cfg.RetentionMaxAge, cfg.PruneInterval, cfg.DeliveredMaxAge, cfg.DLQMaxAge, cfg.DLQMaxDepth)
	env := &concEnv{store: st, clock: clock, names: map[string]string{}}
	pv := &concView{env: env}
	for _, s := range prefix {
		res.Ops++
		res.logf("prefix: %s", pv.exec(s, true))
	}
	start, err := concListing(env, st)
	if err != nil {
		return &Result{Trouble: "listing before the block: " + err.Error()}, nil
	}
	res.logf("before block: %s", start)

	// the block
	sched := NewSched()
	sched.DetectBlocked = true
	sched.Watchdog = 120 * time.Second
	twoHandles := block.Handles == 2 && !memory
	longPoll := false
	for _, ts := range block.Tasks {
		for _, st := range ts {
			if st.Op == "dequeue" && st.Delay > 0 {
				longPoll = true
			}
		}
	}
	sched.SetArmed(func(label string) bool {
		if memory {
			return strings.HasPrefix(label, "queue.MemoryStore.")
		}
		if !strings.HasPrefix(label, "queue.SQLiteStore.") {
			return false
		}
		// A waiting caller goes from its empty-handed attempt to the wait without
		// a stop: an enqueue that falls between the two is caught by the product's
		// poll timer (25 ms of real time), which this world has set out of reach.
		if longPoll && strings.HasPrefix(label, "queue.SQLiteStore.Dequeue#") {
			return false
		}
		// "#d" points sit where the caller may hold its pooled connection: they
		// are of use only when the other caller has a connection of its own
		if strings.Contains(label, "#d") && !twoHandles {
			return false
		}
		// with a second connection on the file, never park a caller inside a write
		// transaction: the other connection's busy handler would give up and its
		// call fail with "database is locked", which no sequential order explains.
		// With one handle the other caller waits for the pooled connection instead
		// (recognised as blocked), and a transaction left open on a connection that
		// went back to the pool is exactly what has to be interleaved with.
		if twoHandles && disk.WriteLocked() {
			return false
		}
		return true
	})
	sched.Install()
	defer UninstallSched()

	crashAt := -1
	if block.CrashAt != nil {
		crashAt = *block.CrashAt
	}
	opsAtStart := disk.Ops
	crashedAtStep := -1
	disk.Decide = func(kind, path string, n int) DiskDecision {
		if crashAt >= 0 && crashedAtStep < 0 && disk.Ops-1-opsAtStart == crashAt {
			crashedAtStep = sched.Steps
			res.fault("crash." + block.Image)
			res.logf("  crash (%s) at disk op %d of the block (%s %s %d bytes), scheduler step %d", block.Image, crashAt, kind, filepath.Base(path), n, sched.Steps)
			res.probe("conc.crash.inside." + kind)
			return DiskCrash
		}
		return DiskContinue
	}
	tasks := make([]*Task, len(block.Tasks))
	sched.OnDecision = func(step int) {
		if disk.Dead() {
			return
		}
		if block.CrashStep != nil && step == *block.CrashStep {
			disk.Kill()
			crashedAtStep = step
			res.fault("crash." + block.Image)
			res.logf("  crash (%s) before scheduling decision %d of the block (disk op %d)", block.Image, step, disk.Ops-opsAtStart)
			res.probe("conc.crash.between_statements")
		}
		if block.CrashAfterTask != nil && *block.CrashAfterTask < len(tasks) && tasks[*block.CrashAfterTask].Done() {
			live := false
			for i, t := range tasks {
				if i != *block.CrashAfterTask && !t.Done() && t.ParkedAt() != "start" {
					live = true
				}
			}
			if live {
				disk.Kill()
				crashedAtStep = step
				res.fault("crash." + block.Image)
				res.logf("  crash (%s) when t%d had finished, before scheduling decision %d of the block (disk op %d)", block.Image, *block.CrashAfterTask, step, disk.Ops-opsAtStart)
				res.probe("conc.crash.after_other_caller_done")
			}
		}
	}
	var recs []*concRec
	var recMu sync.Mutex
	if longPoll {
		sched.OnRelease = func(t *Task, label string) {
			if label != "queue.SQLiteStore.dequeueOnce#1" {
				return
			}
			recMu.Lock()
			for _, r := range recs {
				if tasks[r.Task] == t && r.Ret < 0 && r.Step.Op == "dequeue" && r.Step.Delay > 0 {
					r.Attempts = append(r.Attempts, sched.Steps)
				}
			}
			recMu.Unlock()
		}
	}
	extra := map[int]queue.Store{}
	if block.Handles == 2 && !memory {
		for ti := 1; ti < len(block.Tasks); ti++ {
			h, closeH, err := openStore(cfg, clock, filepath.Join(dir, "q.db"))
			if err != nil {
				res.Trouble = "second handle: " + err.Error()
				return res, nil
			}
			closeHandle := closeH
			defer func() {
				disk.Kill()
				done := make(chan struct{})
				go func() { _ = closeHandle(); close(done) }()
				select {
				case <-done:
				case <-time.After(5 * time.Second):
				}
			}()
			extra[ti] = h
		}
		res.probe("conc.two_handles")
	}
	for ti := range block.Tasks {
		ti := ti
		view := &concView{env: env, store: extra[ti]}
		tasks[ti] = sched.Go(fmt.Sprintf("t%d", ti), "conc", func() any {
			for oi, s := range block.Tasks[ti] {
				if s.Reason == "after-longpoll-started" || s.Reason == "poller-at-rest" {
					// Time passes only while the waiting caller is at rest (between
					// calls, in its wait, or finished): a call that has read the clock
					// and is then overtaken by an advance is not an atomic call at any
					// one instant, which is what the reference can reproduce. The rest
					// of the wait passes only once the caller has fixed its deadline
					// (it waits, or is back already): otherwise nobody would end the wait.
					for spins := 0; spins < 5000; spins++ {
						// looked at only after a stop of its own: before every decision
						// the scheduler lets a caller that was just woken run to its
						// next stop, so what is seen here does not depend on timing
						sched.Park("gate")
						recMu.Lock()
						var first *concRec
						for _, r := range recs {
							if r.Task == 0 && r.Idx == 0 {
								first = r
							}
						}
						at := tasks[0].ParkedAt()
						resting := tasks[0].Done() || sched.Blocked(tasks[0]) || ((at == "start" || at == "op") && tasks[0].Parked())
						started := tasks[0].Done() || sched.Blocked(tasks[0]) || (first != nil && first.Ret >= 0)
						recMu.Unlock()
						ok := resting
						if s.Reason == "after-longpoll-started" {
							ok = resting && started
							if s.Op != "advance" {
								ok = started || (first != nil && strings.HasPrefix(at, "queue.SQLiteStore.dequeueOnce"))
							}
						}
						if ok || disk.Dead() {
							break
						}
					}
				}
				sched.Park("op")
				if disk.Dead() {
					return nil // the process is gone: later calls are never made
				}
				r := &concRec{Task: ti, Idx: oi, Step: s, Call: sched.Steps, Ret: -1}
				recMu.Lock()
				recs = append(recs, r)
				recMu.Unlock()
				out := view.exec(s, false)
				recMu.Lock()
				r.Out = out
				if !disk.Dead() {
					r.Ret = sched.Steps
				}
				recMu.Unlock()
			}
			return nil
		})
	}
	kind := sched.InterleaveBlocking(tasks, block.Sched)
	UninstallSched()
	steps := make([]int, len(tasks))
	for _, e := range sched.Trace {
		for ti := range tasks {
			if strings.HasPrefix(e, fmt.Sprintf("t%d@", ti)) {
				steps[ti]++
			}
		}
	}
	res.Inter = sched.TraceString()
	res.logf("schedule: %d steps, %d switches, %d blocked waits, %d disk operations: %s", sched.Steps, sched.Switches, sched.Blocks, disk.Ops-opsAtStart, compressTrace(sched.Trace))
	if sched.Blocks > 0 {
		res.probe("conc.blocked_wait")
	}
	if sched.Switches > 1 {
		res.probe("conc.interleaved")
	}
	switch kind {
	case "done":
	case "deadlock":
		v := viol("conc.deadlock", "C05,C03", "concurrent callers are stuck: every unfinished caller waits for another (%s)", compressTrace(sched.Trace))
		v.Loc = "conc/block"
		res.Violations = append(res.Violations, v)
		res.logf("  VIOLATION %s", v.String())
		return res, steps
	default:
		res.Trouble = "conc scheduler: " + kind + " " + sched.Trouble
		return res, steps
	}
	sort.Slice(recs, func(i, j int) bool {
		if recs[i].Task != recs[j].Task {
			return recs[i].Task < recs[j].Task
		}
		return recs[i].Idx < recs[j].Idx
	})
	for _, r := range recs {
		res.Ops++
		if r.Step.Op == "dequeue" && r.Step.Delay > 0 {
			res.probe("conc.longpoll")
			if len(r.Attempts) > 1 {
				res.probe("conc.longpoll.waited_and_woken")
				if !strings.HasSuffix(r.Out, "-> [] ok") {
					res.probe("conc.longpoll.woken_by_its_message")
				}
			}
		}
		if r.pending() {
			res.logf("t%d.%d [%d,crash) in flight: %s", r.Task, r.Idx, r.Call, strings.SplitN(r.Out, " -> ", 2)[0])
			res.probe("conc.op_in_flight_at_crash")
		} else {
			res.logf("t%d.%d [%d,%d] %s", r.Task, r.Idx, r.Call, r.Ret, r.Out)
		}
	}

	// final content: after restart on the crash image, else as it stands
	crashed := disk.Dead()
	var final string
	addV := func(v Violation, loc string) {
		v.Loc = loc
		res.Violations = append(res.Violations, v)
		res.logf("  VIOLATION %s", v.String())
	}
	if crashed {
		disk.Kill()
		dir2 := filepath.Join(base, "gen2")
		if err := os.MkdirAll(dir2, 0o755); err != nil {
			res.Trouble = err.Error()
			return res, steps
		}
		pend := disk.PendingWrites()
		applied, dropped, torn, err := disk.Image(dir2, block.Image == "powerloss", block.ImgSeed)
		if err != nil {
			res.Trouble = "image: " + err.Error()
			return res, steps
		}
		disk.Release()
		// close the dead incarnation before anything else runs: a close still
		// going on in the background would share locks with the next execution
		closed := make(chan struct{})
		go func() { _ = closeFn(); close(closed) }()
		select {
		case <-closed:
		case <-time.After(5 * time.Second):
			res.probe("conc.slow_close_of_dead_store")
		}
		released = true
		res.logf("restart after %s: %d unsynced writes (%d applied, %d dropped, %d torn)", block.Image, pend, applied, dropped, torn)
		disk2 := NewDisk(dir2)
		st2, close2, err := openStore(cfg, clock, filepath.Join(dir2, "q.db"))
		if err != nil {
			disk2.Release()
			addV(viol("C01.reopen", "C01", "the queue refuses to open after a crash: %v", err), "conc/restart")
			return res, steps
		}
		defer func() { disk2.Kill(); _ = close2(); disk2.Release() }()
		if s, ok := st2.(*queue.SQLiteStore); ok {
			var ic string
			if err := s.VerifDB().QueryRowContext(context.Background(), "PRAGMA integrity_check;").Scan(&ic); err != nil || ic != "ok" {
				addV(viol("C01.integrity", "C01", "PRAGMA integrity_check after restart: %q err=%v", ic, err), "conc/restart")
			}
		}
		final, err = concListing(env, st2)
		if err != nil {
			addV(viol("C01.reopen", "C01", "listing fails after restart: %v", err), "conc/restart")
			return res, steps
		}
	} else {
		final, err = concListing(env, st)
		if err != nil {
			res.Trouble = "final listing: " + err.Error()
			return res, steps
		}
	}
	res.logf("after block: %s", final)
	if strings.Contains(final, "!=") {
		addV(viol("conc.lease.changed", "C03,C04", "a stored lease id is not the one the dequeue returned: %s", final), "conc/final")
	}

	// linearizability against the sequential behaviour
	var done, inflight []*concRec
	for _, r := range splitFilterCalls(recs) {
		if r.pending() {
			inflight = append(inflight, r)
		} else {
			done = append(done, r)
		}
	}
	tried, reasons := 0, []string{}
	explained, isExplained := "", false
	for mask := 0; mask < 1<<len(inflight) && !isExplained; mask++ {
		set := append([]*concRec(nil), done...)
		for i, r := range inflight {
			if mask&(1<<i) != 0 {
				set = append(set, r)
			}
		}
		orders := concOrders(set, 400)
		// likeliest first: by return stamp
		sort.SliceStable(orders, func(a, b int) bool { return orderKey(orders[a]) < orderKey(orders[b]) })
		for _, o := range orders {
			tried++
			name := orderNames(o)
			ref, ok := cache[name]
			if !ok {
				ref = concReference(p, prefix, o, len(block.Tasks))
				clock.Install()
				cache[name] = ref
				res.probe("conc.reference_runs")
			}
			if ref.trouble != "" {
				res.Trouble = ref.trouble
				return res, steps
			}
			why := ""
			for i, r := range o {
				if !r.pending() && !r.NoOut && ref.outs[i] != r.Out {
					why = fmt.Sprintf("t%d.%d sequentially gives {%s}", r.Task, r.Idx, ref.outs[i])
					break
				}
			}
			if why == "" && ref.final == final {
				explained, isExplained = name, true
				break
			}
			if why == "" {
				why = "same results, final content {" + ref.final + "}"
			}
			if len(reasons) < 6 {
				reasons = append(reasons, name+": "+why)
			}
		}
	}
	res.probe(fmt.Sprintf("conc.orders_tried.%d", min(tried, 9)))
	res.SimTime = int64(clock.Peek().Sub(Epoch))
	if !isExplained {
		props, rule := "C03,C04,C05,C02,C12,C14", "conc.nonlinearizable"
		if crashed {
			props, rule = "C01,C05", "conc.crash.unexplained"
		}
		loc := "conc/block"
		if crashed {
			loc = "conc/restart"
		}
		addV(viol(rule, props, "no sequential order of the concurrent calls (respecting program order and real-time precedence) reproduces their results and the content found afterwards {%s}; tried %d: %s", final, tried, strings.Join(reasons, " || ")), loc)
		return res, steps
	}
	res.logf("explained by the sequential order [%s] (%d tried)", explained, tried)
	return res, steps
}

func orderKey(o []*concRec) string {
	var b strings.Builder
	for _, r := range o {
		ret := r.Ret
		if ret < 0 {
			ret = 1 << 20
		}
		fmt.Fprintf(&b, "%08d.%08d;", ret, r.Call)
	}
	return b.String()
}

func orderNames(o []*concRec) string {
	var parts []string
	for _, r := range o {
		parts = append(parts, fmt.Sprintf("t%d.%d", r.Task, r.Idx))
	}
	return strings.Join(parts, "<")
}

// compressTrace: "t0@x t0@y t1@z" -> run-length form by task, labels shortened.
func compressTrace(tr []string) string {
	var parts []string
	for _, e := range tr {
		e = strings.Replace(e, "queue.SQLiteStore.", "", 1)
		parts = append(parts, e)
	}
	if len(parts) > 120 {
		parts = append(parts[:120], fmt.Sprintf("...(+%d)", len(parts)-120))
	}
	return strings.Join(parts, " ")
}

// ---- generator ----

type ConcProfile struct {
	Memory     int // memory backend probability in tenths (no crashes there)
	TwoHandles int // SQLite: each caller on its own handle of the one file, probability in tenths
	Crash      int // crash probability in tenths
	Limits     int // small max_depth (reject / drop_oldest) probability in tenths
	Sweep      int // programs whose block is swept over all single-preemption schedules, per mille
	LongPoll   int // SQLite, one handle: one caller long-polls an empty route while the other lets time pass and enqueues, probability in tenths
}

func GenConcProgram(t *rapid.T, prof ConcProfile) *Program {
	p := &Program{World: "conc"}
	p.Store = QConfig{Backend: "sqlite"}
	if prof.Memory > 0 && rapid.IntRange(0, 9).Draw(t, "memory?") < prof.Memory {
		p.Store.Backend = "memory"
	}
	if rapid.IntRange(0, 9).Draw(t, "retention?") < 7 {
		p.Store.RetentionMaxAge = time.Hour
		p.Store.PruneInterval = time.Second
		p.Store.DLQMaxAge = time.Hour
		p.Store.DLQMaxDepth = 100
	}
	if rapid.IntRange(0, 9).Draw(t, "delivered?") < 3 {
		p.Store.DeliveredMaxAge = time.Hour
		if p.Store.PruneInterval == 0 {
			p.Store.PruneInterval = time.Second
		}
	}
	switch k := rapid.IntRange(0, 9).Draw(t, "limits?"); {
	case k == 0 || k-1 < prof.Limits:
		p.Store.MaxDepth, p.Store.DropPolicy = rapid.IntRange(1, 5).Draw(t, "depth"), "reject"
		if prof.Limits > 0 && rapid.Bool().Draw(t, "drop_oldest") {
			p.Store.DropPolicy = "drop_oldest"
		}
	case k == 9:
		p.Store.MaxDepth, p.Store.DropPolicy = 0, "" // limits off: the single-statement insert path
	default:
		p.Store.MaxDepth, p.Store.DropPolicy = 10000, "reject" // the documented default
	}
	p.Offset = rapid.SampledFrom([]int64{0, 1, 500_000_000}).Draw(t, "clock_offset")
	routes := []string{"/r0", "/r1"}
	var ids []string
	nid := 0
	newEnq := func(label string) Step {
		nid++
		id := fmt.Sprintf("m%d", nid)
		ids = append(ids, id)
		return Step{Op: "enqueue", Env: &EnvSpec{ID: id, Route: rapid.SampledFrom(routes).Draw(t, label+".route"), Target: "pull"}}
	}
	// prefix
	n := rapid.IntRange(0, 4).Draw(t, "pre.n")
	for i := 0; i < n; i++ {
		p.Steps = append(p.Steps, newEnq("pre"))
	}
	leases := 0
	for i := rapid.IntRange(0, 2).Draw(t, "pre.deq"); i > 0 && n > 0; i-- {
		p.Steps = append(p.Steps, Step{Op: "dequeue", Route: rapid.SampledFrom([]string{"", "/r0", "/r1"}).Draw(t, "pre.dr"), Batch: rapid.IntRange(1, 2).Draw(t, "pre.db"),
			TTL: rapid.SampledFrom([]time.Duration{5 * time.Millisecond, 30 * time.Second, 30 * time.Second}).Draw(t, "pre.ttl")})
		leases++
	}
	if leases > 0 {
		switch rapid.IntRange(0, 5).Draw(t, "pre.settle") {
		case 0:
			p.Steps = append(p.Steps, Step{Op: "dead", LeaseRef: intp(0), Reason: "manual"})
		case 1:
			p.Steps = append(p.Steps, Step{Op: "nack", LeaseRef: intp(0), Delay: rapid.SampledFrom([]time.Duration{0, time.Second}).Draw(t, "pre.nd")})
		case 2:
			p.Steps = append(p.Steps, Step{Op: "cancel", IDLits: []string{"m1"}})
		}
	}
	p.Steps = append(p.Steps, Step{Op: "advance", D: rapid.SampledFrom([]time.Duration{time.Millisecond, 6 * time.Millisecond, 20 * time.Millisecond, 2 * time.Second, 2 * time.Second, 2 * time.Second}).Draw(t, "pre.adv")})

	// the block
	block := Step{Op: "conc"}
	ntasks := 2
	contend := rapid.Bool().Draw(t, "contend?")
	if contend {
		// both callers work on the same message: a prefix that leaves m1 leased
		// (lease still valid, or expired and not yet swept), then settlements,
		// operator calls and dequeues that all concern m1
		nid, ids = 0, nil
		p.Steps = nil
		e1 := newEnq("c")
		e1.Env.Route = "/r0"
		p.Steps = append(p.Steps, e1)
		if rapid.Bool().Draw(t, "c.second") {
			e2 := newEnq("c")
			e2.Env.Route = "/r0"
			p.Steps = append(p.Steps, e2)
		}
		p.Steps = append(p.Steps, Step{Op: "dequeue", Route: "/r0", Batch: 1, TTL: rapid.SampledFrom([]time.Duration{30 * time.Second, 30 * time.Second, 5 * time.Millisecond}).Draw(t, "c.ttl")})
		p.Steps = append(p.Steps, Step{Op: "advance", D: rapid.SampledFrom([]time.Duration{time.Millisecond, 6 * time.Millisecond, 20 * time.Millisecond, 2 * time.Second}).Draw(t, "c.adv")})
		mine := []string{"ack", "nack", "dead", "extend", "ack_batch", "nack_batch"}
		theirs := []string{"cancel", "requeue", "ack", "nack", "dead", "extend", "dequeue", "dequeue", "ack_batch", "cancel+requeue", "list", "cancel_f", "requeue_f", "cancel_f+requeue_f"}
		mk := func(op, label string) []Step {
			switch op {
			case "ack", "dead":
				return []Step{{Op: op, LeaseRef: intp(0), Reason: "manual"}}
			case "nack", "extend":
				return []Step{{Op: op, LeaseRef: intp(0), Delay: rapid.SampledFrom([]time.Duration{0, time.Second, 30 * time.Second}).Draw(t, label+".delay")}}
			case "ack_batch", "nack_batch":
				return []Step{{Op: op, LeaseRefs: []int{0, -3}, Delay: time.Second}}
			case "cancel", "requeue":
				return []Step{{Op: op, IDLits: []string{"m1"}}}
			case "cancel+requeue":
				return []Step{{Op: "cancel", IDLits: []string{"m1"}}, {Op: "requeue", IDLits: []string{"m1"}}}
			case "cancel_f", "requeue_f":
				return []Step{{Op: op, Route: rapid.SampledFrom([]string{"", "/r0"}).Draw(t, label+".froute"), Reason: rapid.SampledFrom([]string{"", "", "leased", "queued", "dead", "canceled"}).Draw(t, label+".fstate")}}
			case "cancel_f+requeue_f":
				return []Step{{Op: "cancel_f", Route: "/r0"}, {Op: "requeue_f", Route: "/r0"}}
			case "dequeue":
				return []Step{{Op: "dequeue", Route: "/r0", Batch: rapid.IntRange(1, 2).Draw(t, label+".b"), TTL: 30 * time.Second}}
			}
			return []Step{{Op: op}}
		}
		t0 := mk(rapid.SampledFrom(mine).Draw(t, "c.t0"), "c.t0")
		t1 := mk(rapid.SampledFrom(theirs).Draw(t, "c.t1"), "c.t1")
		if rapid.IntRange(0, 3).Draw(t, "c.more") == 0 {
			t1 = append(t1, mk(rapid.SampledFrom(theirs).Draw(t, "c.t1b"), "c.t1b")...)
		}
		if rapid.IntRange(0, 3).Draw(t, "c.more0") == 0 {
			t0 = append(t0, Step{Op: "dequeue", Route: "/r0", Batch: 1, TTL: 30 * time.Second})
		}
		block.Tasks = [][]Step{t0, t1}
		ntasks = 0
	}
	for ti := 0; ti < ntasks; ti++ {
		var ops []Step
		k := rapid.IntRange(1, 3).Draw(t, "t.n")
		for j := 0; j < k; j++ {
			var s Step
			opset := []string{"enqueue", "enqueue", "dequeue", "dequeue", "dequeue", "ack", "ack", "nack", "extend", "dead", "ack_batch", "nack_batch", "cancel", "requeue", "stats", "list", "enqueue_batch", "cancel_f", "requeue_f", "resume_f"}
			if prof.Limits > 0 {
				opset = []string{"enqueue", "enqueue", "enqueue", "enqueue_batch", "enqueue_batch", "dequeue", "ack", "nack", "cancel", "requeue", "stats"}
			}
			switch op := rapid.SampledFrom(opset).Draw(t, "t.op"); op {
			case "enqueue":
				s = newEnq("t")
			case "enqueue_batch":
				s = Step{Op: "enqueue_batch"}
				for b := rapid.IntRange(1, 3).Draw(t, "t.bn"); b > 0; b-- {
					e := newEnq("t")
					s.Items = append(s.Items, *e.Env)
				}
			case "dequeue":
				s = Step{Op: "dequeue", Route: rapid.SampledFrom([]string{"", "/r0", "/r1"}).Draw(t, "t.dr"), Batch: rapid.IntRange(1, 3).Draw(t, "t.db"),
					TTL: rapid.SampledFrom([]time.Duration{5 * time.Millisecond, 30 * time.Second}).Draw(t, "t.ttl")}
			case "ack", "dead":
				s = Step{Op: op, LeaseRef: intp(rapid.IntRange(0, 2).Draw(t, "t.lr")), Reason: "manual"}
			case "nack", "extend":
				s = Step{Op: op, LeaseRef: intp(rapid.IntRange(0, 2).Draw(t, "t.lr")), Delay: rapid.SampledFrom([]time.Duration{0, time.Second, 30 * time.Second}).Draw(t, "t.delay")}
			case "ack_batch", "nack_batch":
				s = Step{Op: op, LeaseRefs: []int{rapid.IntRange(0, 2).Draw(t, "t.lr1"), rapid.IntRange(0, 3).Draw(t, "t.lr2")}, Delay: time.Second}
			case "cancel_f", "requeue_f", "resume_f":
				s = Step{Op: op, Route: rapid.SampledFrom([]string{"", "/r0", "/r1"}).Draw(t, "t.froute"), Reason: rapid.SampledFrom([]string{"", "", "leased", "queued", "dead", "canceled", "delivered"}).Draw(t, "t.fstate")}
			case "cancel", "requeue":
				s = Step{Op: op}
				if len(ids) > 0 {
					s.IDLits = []string{ids[rapid.IntRange(0, len(ids)-1).Draw(t, "t.id")]}
				} else {
					s.IDLits = []string{"m1"}
				}
			default:
				s = Step{Op: op}
			}
			ops = append(ops, s)
		}
		block.Tasks = append(block.Tasks, ops)
	}
	longPoll := false
	if prof.LongPoll > 0 && p.Store.Backend == "sqlite" && rapid.IntRange(0, 9).Draw(t, "longpoll?") < prof.LongPoll {
		// Caller 0 asks for a message of /r0 and is prepared to wait; caller 1 lets
		// time pass, enqueues (for /r0 or for somebody else), lets the rest of the
		// wait pass and enqueues for a third route, which ends the wait if it is
		// still on. The long-poll timer is real time and set out of reach: what
		// wakes the waiting caller is another caller's enqueue.
		longPoll = true
		p.Store.PollInterval = time.Hour
		p.Store.MaxDepth, p.Store.DropPolicy = 10000, "reject"
		wait := 30 * time.Second
		t0 := []Step{{Op: "dequeue", Route: "/r0", Batch: rapid.IntRange(1, 2).Draw(t, "lp.batch"), Delay: wait,
			TTL: rapid.SampledFrom([]time.Duration{5 * time.Second, 30 * time.Second, 45 * time.Second}).Draw(t, "lp.ttl")}}
		switch rapid.IntRange(0, 3).Draw(t, "lp.then") {
		case 0:
			t0 = append(t0, Step{Op: "ack", LeaseRef: intp(0)})
		case 1:
			t0 = append(t0, Step{Op: "extend", LeaseRef: intp(0), Delay: 10 * time.Second})
		}
		var t1 []Step
		for k := rapid.IntRange(1, 3).Draw(t, "lp.n"); k > 0; k-- {
			t1 = append(t1, Step{Op: "advance", Reason: "poller-at-rest", D: rapid.SampledFrom([]time.Duration{time.Second, 4 * time.Second, 10 * time.Second, 20 * time.Second}).Draw(t, "lp.adv")})
			e := newEnq("lp")
			t1 = append(t1, e)
			if rapid.IntRange(0, 2).Draw(t, "lp.deq?") == 0 {
				t1 = append(t1, Step{Op: "dequeue", Route: "/r0", Batch: 1, TTL: 30 * time.Second})
			}
		}
		t1 = append(t1, Step{Op: "advance", D: wait + time.Second, Reason: "after-longpoll-started"})
		nid++
		t1 = append(t1, Step{Op: "enqueue", Env: &EnvSpec{ID: fmt.Sprintf("m%d", nid), Route: "/wake", Target: "pull"}, Reason: "after-longpoll-started"})
		block.Tasks = [][]Step{t0, t1}
	}
	// the choice list is drawn as runs (who, for how many decisions): a call has
	// to get some way into its statements before the other caller cuts in, which
	// a coin flip per decision almost never produces
	type seg struct{ who, n int }
	segs := rapid.SliceOfN(rapid.Custom(func(t *rapid.T) seg {
		return seg{rapid.IntRange(0, 1).Draw(t, "who"), rapid.SampledFrom([]int{1, 1, 2, 3, 5, 8, 13, 21, 34}).Draw(t, "len")}
	}), 0, 10).Draw(t, "sched")
	for _, sg := range segs {
		for i := 0; i < sg.n && len(block.Sched) < 160; i++ {
			block.Sched = append(block.Sched, sg.who)
		}
	}
	// (rapid's integer draws favour small values, so a rare event is not drawn
	// but derived from a digest of what has been drawn so far)
	if longPoll {
		// one drawn schedule, no process death: the waiting caller is the subject
		p.Steps = append(p.Steps, block)
		return p
	}
	if int(fnvHash(string(mustJSON(block))+string(mustJSON(p)))%1000) < prof.Sweep {
		// every single-preemption schedule instead of one drawn schedule
		block.Sweep = true
		block.Sched = nil
		if rapid.IntRange(0, 9).Draw(t, "crash?") < prof.Crash {
			block.Image = rapid.SampledFrom([]string{"kill", "kill", "powerloss"}).Draw(t, "crash.image")
			block.ImgSeed = int64(rapid.IntRange(0, 1<<20).Draw(t, "crash.seed"))
		}
	} else if rapid.IntRange(0, 9).Draw(t, "crash?") < prof.Crash {
		if rapid.Bool().Draw(t, "crash.kind") {
			block.CrashAt = intp(rapid.SampledFrom([]int{0, 0, 1, 1, 2, 3, 4, 5, 6, 8, 10, 13, 17, 22, 30, 45}).Draw(t, "crash.at"))
		} else {
			block.CrashStep = intp(rapid.IntRange(2, 70).Draw(t, "crash.step"))
		}
		block.Image = rapid.SampledFrom([]string{"kill", "kill", "powerloss"}).Draw(t, "crash.image")
		block.ImgSeed = int64(rapid.IntRange(0, 1<<20).Draw(t, "crash.seed"))
	}
	if prof.TwoHandles > 0 && p.Store.Backend != "memory" && rapid.IntRange(0, 9).Draw(t, "handles?") < prof.TwoHandles {
		block.Handles = 2
	}
	p.Steps = append(p.Steps, block)
	return p
}
