package sim

// Independent reference for the ingress pipeline, written from the property
// statements (C07-C12, C17) and docs/configuration.md. It interprets SysSpec
// directly and never looks at the compiled configuration or the runtime state.

import (
	"crypto/hmac"
	"crypto/sha256"
	"encoding/base64"
	"encoding/hex"
	"fmt"
	"math"
	"net"
	"net/http"
	"net/netip"
	"net/url"
	"path"
	"sort"
	"strconv"
	"strings"
	"time"
)

// ---- route resolution (C10) -------------------------------------------------

func refNormalizeHost(h string) string {
	h = strings.ToLower(strings.TrimSpace(h))
	if hp, _, err := net.SplitHostPort(h); err == nil {
		h = hp
	}
	h = strings.Trim(h, "[]")
	return strings.TrimSuffix(h, ".")
}

func refPathMatch(reqPath, routePath string) bool {
	if routePath == "/" {
		return true
	}
	return reqPath == routePath || strings.HasPrefix(reqPath, routePath+"/")
}

func refHostMatch(host string, allowed []string) bool {
	if len(allowed) == 0 {
		return true
	}
	for _, a := range allowed {
		a = strings.ToLower(a)
		switch {
		case a == "*":
			return true
		case strings.HasPrefix(a, "*."):
			// sub-domains only
			if strings.HasSuffix(host, a[1:]) && len(host) > len(a[1:]) {
				return true
			}
		case host == a:
			return true
		}
	}
	return false
}

// refRouteCriteria reports whether every criterion except the method holds,
// and whether the method holds.
func refRouteCriteria(spec *SysSpec, r *RouteSpec, req *http.Request, cleaned string) (rest bool, method bool) {
	if !refPathMatch(cleaned, r.Path) {
		return false, false
	}
	m := spec.matchOf(r)
	if m == nil {
		m = &MatchSpec{}
	}
	if !refHostMatch(refNormalizeHost(req.Host), m.Hosts) {
		return false, false
	}
	for _, h := range m.HeaderExists {
		if len(req.Header.Values(h)) == 0 {
			return false, false
		}
	}
	for _, kv := range m.Headers {
		ok := false
		for _, v := range req.Header.Values(kv.Name) {
			if v == kv.Value {
				ok = true
			}
		}
		if !ok {
			return false, false
		}
	}
	qv, _ := url.ParseQuery(req.URL.RawQuery)
	for _, k := range m.QueryExists {
		if len(qv[k]) == 0 {
			return false, false
		}
	}
	for _, kv := range m.Query {
		ok := false
		for _, v := range qv[kv.Name] {
			if v == kv.Value {
				ok = true
			}
		}
		if !ok {
			return false, false
		}
	}
	if len(m.RemoteIPs) > 0 {
		ok := false
		host := req.RemoteAddr
		if hp, _, err := net.SplitHostPort(host); err == nil {
			host = hp
		}
		if ip, err := netip.ParseAddr(strings.Trim(host, "[]")); err == nil {
			ip = ip.Unmap()
			for _, p := range m.RemoteIPs {
				if pf, err := netip.ParsePrefix(p); err == nil && pf.Contains(ip) {
					ok = true
				}
			}
		}
		if !ok {
			return false, false
		}
	}
	methods := m.Methods
	if len(methods) == 0 {
		methods = []string{http.MethodPost}
	}
	for _, x := range methods {
		if req.Method == x {
			return true, true
		}
	}
	return true, false
}

// refResolve: index of the route the ingress listener must hand the request
// to, or -1 with the status (404 / 405) and the Allow set.
func refResolve(spec *SysSpec, req *http.Request) (idx int, status int, allow []string) {
	cleaned := path.Clean(req.URL.Path)
	seen := map[string]bool{}
	for i := range spec.Routes {
		r := &spec.Routes[i]
		if r.Channel != "" && r.Channel != "inbound" {
			continue // outbound and internal routes are never reachable from ingress
		}
		rest, method := refRouteCriteria(spec, r, req, cleaned)
		if rest && method {
			return i, 0, nil
		}
		if rest {
			ms := []string{http.MethodPost}
			if m := spec.matchOf(r); m != nil && len(m.Methods) > 0 {
				ms = m.Methods
			}
			for _, x := range ms {
				if !seen[x] {
					seen[x] = true
					allow = append(allow, x)
				}
			}
		}
	}
	if len(allow) > 0 {
		return -1, http.StatusMethodNotAllowed, allow
	}
	return -1, http.StatusNotFound, nil
}

// ---- rate limit (C12) -------------------------------------------------------

// refLimiter is the window characterisation of "admits at most burst + rps x
// window": with the bucket full at t0, a request at t is admissible iff for
// every earlier admitted request i (and for t0): admitted in [t_i, t] + 1 <=
// burst + rps*(t - t_i).
type refLimiter struct {
	rps      float64
	burst    float64
	t0       time.Time
	admitted []time.Time
	// admittedHi: the latest instant each admission can have happened at (differs
	// from admitted only for requests of a race during which the clock moved)
	admittedHi []time.Time
}

// admit records an admission that happened somewhere in [lo, hi].
func (l *refLimiter) admit(lo, hi time.Time) {
	l.admitted = append(l.admitted, lo)
	l.admittedHi = append(l.admittedHi, hi)
}

// slackHi is slack under the most pessimistic reading of uncertain admission
// times (every earlier admission as late as it can have been): room that exists
// even then is room the limiter really has.
func (l *refLimiter) slackHi(t time.Time) float64 {
	best := l.burst + l.rps*t.Sub(l.t0).Seconds() - float64(len(l.admittedHi)+1)
	for i, ti := range l.admittedHi {
		cnt := float64(len(l.admittedHi)-i) + 1
		m := l.burst + l.rps*t.Sub(ti).Seconds() - cnt
		if m < best {
			best = m
		}
	}
	return best
}

func newRefLimiter(r *RateSpec, t0 time.Time) *refLimiter {
	b := float64(r.Burst)
	if r.Burst <= 0 {
		b = math.Ceil(r.RPS)
	}
	return &refLimiter{rps: r.RPS, burst: b, t0: t0}
}

// slack returns the smallest margin left if one more request were admitted at t
// (>= 0: admissible).
func (l *refLimiter) slack(t time.Time) float64 {
	best := l.burst + l.rps*t.Sub(l.t0).Seconds() - float64(len(l.admitted)+1)
	for i, ti := range l.admitted {
		// requests i..end plus the new one, in the window starting at t_i with
		// the bucket at most full just before t_i
		cnt := float64(len(l.admitted)-i) + 1
		m := l.burst + l.rps*t.Sub(ti).Seconds() - cnt
		if m < best {
			best = m
		}
	}
	return best
}

// ---- authentication (C08, C09, C17 inbound) ---------------------------------

func refBasicOK(r *RouteSpec, req *http.Request) bool {
	h := req.Header.Get("Authorization")
	if !strings.HasPrefix(h, "Basic ") {
		return false
	}
	raw, err := base64.StdEncoding.DecodeString(strings.TrimPrefix(h, "Basic "))
	if err != nil {
		return false
	}
	i := strings.IndexByte(string(raw), ':')
	if i < 0 {
		return false
	}
	u, p := string(raw[:i]), string(raw[i+1:])
	for _, kv := range r.Basic {
		if kv.Name == u && kv.Value == p {
			return true
		}
	}
	return false
}

func hmacHeaders(h *HMACSpec) (sig, ts, nonce string) {
	sig, ts, nonce = "X-Signature", "X-Timestamp", "X-Nonce"
	if h.SigHeader != "" {
		sig = h.SigHeader
	}
	if h.TSHeader != "" {
		ts = h.TSHeader
	}
	if h.NonceHdr != "" {
		nonce = h.NonceHdr
	}
	return
}

func hmacTolerance(h *HMACSpec) time.Duration {
	if h.Tolerance > 0 {
		return h.Tolerance
	}
	return 5 * time.Minute
}

// secretsValidAt: inline secrets always; referenced versions when
// valid_from <= at < valid_until.
func secretsValidAt(spec *SysSpec, h *HMACSpec, at time.Time) [][]byte {
	var out [][]byte
	for _, ref := range h.SecretRefs {
		for _, sc := range spec.Secrets {
			if sc.ID != ref {
				continue
			}
			from := spec.secAt(sc.ValidFrom)
			if at.Before(from) {
				continue
			}
			if sc.ValidUntil != nil && !at.Before(spec.secAt(*sc.ValidUntil)) {
				continue
			}
			out = append(out, []byte(sc.Value))
		}
	}
	for _, s := range h.Secrets {
		out = append(out, []byte(s))
	}
	return out
}

func refSign(secret []byte, tsStr, method, cleanedPath string, body []byte) string {
	sum := sha256.Sum256(body)
	mac := hmac.New(sha256.New, secret)
	mac.Write([]byte(tsStr + "\n" + method + "\n" + cleanedPath + "\n" + hex.EncodeToString(sum[:])))
	return hex.EncodeToString(mac.Sum(nil))
}

type hmacVerdict struct {
	wellFormed bool      // all three headers present, timestamp parses
	ts         time.Time // signed timestamp
	inWindow   bool      // |now-ts| <= tolerance
	atEdge     bool      // |now-ts| == tolerance exactly
	sigOK      bool      // signature matches a secret valid at ts
	nonce      string
}

func refHMAC(spec *SysSpec, r *RouteSpec, req *http.Request, body []byte, now time.Time) hmacVerdict {
	var v hmacVerdict
	sigH, tsH, nonceH := hmacHeaders(r.HMAC)
	sig := strings.TrimSpace(req.Header.Get(sigH))
	tsStr := strings.TrimSpace(req.Header.Get(tsH))
	v.nonce = strings.TrimSpace(req.Header.Get(nonceH))
	if sig == "" || tsStr == "" || v.nonce == "" {
		return v
	}
	sec, err := strconv.ParseInt(tsStr, 10, 64)
	if err != nil {
		return v
	}
	v.wellFormed = true
	v.ts = time.Unix(sec, 0).UTC()
	d := now.Sub(v.ts)
	if d < 0 {
		d = -d
	}
	tol := hmacTolerance(r.HMAC)
	v.inWindow = d <= tol
	v.atEdge = d == tol
	got, err := hex.DecodeString(sig)
	if err != nil || len(got) == 0 {
		return v
	}
	cleaned := path.Clean(req.URL.Path)
	for _, s := range secretsValidAt(spec, r.HMAC, v.ts) {
		if len(s) == 0 {
			continue
		}
		want, _ := hex.DecodeString(refSign(s, tsStr, req.Method, cleaned, body))
		if hmac.Equal(got, want) {
			v.sigOK = true
		}
	}
	return v
}

// ---- stored headers (C07) ---------------------------------------------------

func refStoredHeaders(h http.Header, extra map[string]string) map[string]string {
	out := map[string]string{}
	for k, v := range h {
		switch strings.ToLower(k) {
		case "authorization", "proxy-authorization", "cookie":
			continue
		}
		out[http.CanonicalHeaderKey(k)] = strings.Join(v, ",")
	}
	for k, v := range extra {
		out[http.CanonicalHeaderKey(strings.TrimSpace(k))] = v
	}
	if len(out) == 0 {
		return nil
	}
	return out
}

func headerBytes(m map[string]string) int {
	n := 0
	for k, v := range m {
		n += len(k) + len(v)
	}
	return n
}

func (s *SysSpec) limitsFor(r *RouteSpec) (maxBody int, maxHeaders int) {
	maxBody, maxHeaders = 2<<20, 64<<10
	if s.MaxBody > 0 {
		maxBody = s.MaxBody
	}
	if s.MaxHeaders > 0 {
		maxHeaders = s.MaxHeaders
	}
	if r.MaxBody > 0 {
		maxBody = r.MaxBody
	}
	if r.MaxHeaders > 0 {
		maxHeaders = r.MaxHeaders
	}
	return
}

func (r *RouteSpec) targets() []string {
	if r.PullPath != "" {
		return []string{"pull"}
	}
	var out []string
	for _, d := range r.Deliver {
		out = append(out, d.URL)
	}
	return out
}

func fmtSet(m map[int]bool) string {
	var ks []int
	for k := range m {
		ks = append(ks, k)
	}
	sort.Ints(ks)
	var parts []string
	for _, k := range ks {
		parts = append(parts, fmt.Sprint(k))
	}
	return "{" + strings.Join(parts, ",") + "}"
}
