package sim

// Publish world (C15) and admin-API operator mutations (C14 admin part): the
// real admin.Server of a node built from generated configuration.

import (
	"encoding/base64"
	"encoding/json"
	"fmt"
	"strings"
	"time"

	"github.com/nuetzliches/hookaido/internal/queue"
	"pgregory.net/rapid"
)

type PubItem struct {
	ID      string            `json:"id"`
	Route   string            `json:"route"`
	Target  string            `json:"target,omitempty"`
	Payload []byte            `json:"payload,omitempty"`
	RawB64  string            `json:"raw_b64,omitempty"` // overrides Payload (invalid base64)
	Headers map[string]string `json:"headers,omitempty"`
	RecvAt  string            `json:"received_at,omitempty"`
	NextAt  string            `json:"next_run_at,omitempty"`
	DupRef  *int              `json:"dup_ref,omitempty"` // reuse the id of the k-th most recent stored message
	Bad     string            `json:"bad,omitempty"`     // generator's note: kind of invalidity ("" valid)
}

type PubReq struct {
	Items    []PubItem `json:"items"`
	NoReason bool      `json:"no_reason,omitempty"`
	Token    string    `json:"token,omitempty"` // ok none wrong
	Unknown  bool      `json:"unknown_field,omitempty"`
	Chunked  bool      `json:"chunked,omitempty"` // request body of undeclared length
	// Scoped: endpoint-scoped (managed) publish POST /applications/{app}/endpoints/{name}/messages/publish
	ScopedApp string `json:"scoped_app,omitempty"`
	ScopedEP  string `json:"scoped_ep,omitempty"`
	Actor     bool   `json:"actor,omitempty"`      // send X-Hookaido-Audit-Actor
	RequestID bool   `json:"request_id,omitempty"` // send X-Request-ID
}

// pubPolicy: the defaults.publish_policy switches of the configuration (documented defaults: everything allowed, nothing required).
type pubPolicy struct {
	directOff, managedOff, pullOff, deliverOff, needActor, needRequestID bool
}

func (s *SysSpec) pubPolicy() pubPolicy {
	var p pubPolicy
	for _, l := range s.PublishPolicy {
		switch strings.Join(strings.Fields(l), " ") {
		case "direct off":
			p.directOff = true
		case "managed off":
			p.managedOff = true
		case "allow_pull_routes off":
			p.pullOff = true
		case "allow_deliver_routes off":
			p.deliverOff = true
		case "require_actor on":
			p.needActor = true
		case "require_request_id on":
			p.needRequestID = true
		}
	}
	return p
}

// modeForbidden: the global policy does not permit manual publish to routes of this mode.
func (p pubPolicy) modeForbidden(r *RouteSpec) bool {
	return (p.pullOff && r.PullPath != "") || (p.deliverOff && len(r.Deliver) > 0)
}

type AdminMut struct {
	Kind   string      `json:"kind"` // cancel requeue resume dlq_requeue dlq_delete cancel_f requeue_f resume_f
	IDRefs []int       `json:"id_refs,omitempty"`
	Filter *FilterSpec `json:"filter,omitempty"`
	// Scoped: 1 + index of the managed route whose endpoint-scoped by-filter path is used (0: the global path)
	Scoped int `json:"scoped,omitempty"`
}

type PublishWorld struct {
	*SysWorld
	Model *Model
	ids   []string
	seq   int
}

func (w *PublishWorld) add(rule, props, loc, format string, a ...any) {
	v := viol(rule, props, format, a...)
	v.Loc = loc
	w.Res.Violations = append(w.Res.Violations, v)
	w.Res.logf("  VIOLATION %s", v.String())
}

func (w *PublishWorld) sync(desc, loc string) {
	items, err := w.Listing()
	if err != nil {
		w.add("C02.list.error", "C02", loc, "listing failed: %v", err)
		return
	}
	for _, v := range w.Model.CompareListing(w.Clock.Peek(), desc, items) {
		if v.Loc == "" {
			v.Loc = loc
		}
		// the listing after a publish / an operator mutation is the observable
		// the property is stated over
		// (conservation-type rules only: eviction-order rules stay with C12)
		if strings.HasPrefix(v.Rule, "C02.") || strings.HasPrefix(v.Rule, "C05.") {
			if strings.HasPrefix(loc, "admin/publish") {
				v.Props = append(v.Props, "C15")
			} else if strings.HasPrefix(loc, "admin/") && loc != "admin/setup" {
				v.Props = append(v.Props, "C14")
			}
		}
		w.Res.Violations = append(w.Res.Violations, v)
		w.Res.logf("  VIOLATION %s", v.String())
	}
	w.Res.States = append(w.Res.States, w.Model.Hash())
}

func (w *PublishWorld) adminHeaders(token string, reason bool) []KV {
	var h []KV
	switch token {
	case "none":
	case "wrong":
		h = append(h, KV{"Authorization", "Bearer not-the-admin-token"})
	default:
		if len(w.Spec.AdminTokens) > 0 {
			h = append(h, KV{"Authorization", "Bearer " + w.Spec.AdminTokens[0]})
		}
	}
	if reason {
		h = append(h, KV{"X-Hookaido-Audit-Reason", "verif publish"})
	}
	h = append(h, KV{"Content-Type", "application/json"})
	return h
}

func (w *PublishWorld) pubHeaders(pr *PubReq) []KV {
	h := w.adminHeaders(pr.Token, !pr.NoReason)
	if pr.Actor {
		h = append(h, KV{"X-Hookaido-Audit-Actor", "verif-operator"})
	}
	if pr.RequestID {
		h = append(h, KV{"X-Request-ID", "req-verif-1"})
	}
	return h
}

// itemVerdict: reference validation of one item (nil = acceptable); returns the
// envelope the item stands for.
func (w *PublishWorld) itemVerdict(it *PubItem, id string, seen map[string]bool, scoped ...*RouteSpec) (string, *queue.Envelope) {
	if strings.TrimSpace(id) == "" {
		return "blank_id", nil
	}
	if seen[strings.TrimSpace(id)] {
		return "dup_in_batch", nil
	}
	var r *RouteSpec
	if len(scoped) > 0 && scoped[0] != nil {
		// endpoint-scoped publish: the route is the endpoint's; an item must not
		// name a route (or application / endpoint) of its own
		r = scoped[0]
		if strings.TrimSpace(it.Route) != "" {
			return "selector_hint", nil
		}
	} else {
		r = w.Spec.route(strings.TrimSpace(it.Route))
		if r == nil {
			return "unknown_route", nil
		}
		if r.PublishOff || r.DirectOff {
			return "publish_disabled", nil
		}
		if r.App != "" {
			return "managed_route", nil
		}
		if w.Spec.pubPolicy().modeForbidden(r) {
			return "route_mode_forbidden", nil
		}
	}
	targets := r.targets()
	target := strings.TrimSpace(it.Target)
	switch {
	case target == "" && len(targets) == 1:
		target = targets[0]
	case target == "":
		return "target_required", nil
	default:
		ok := false
		for _, t := range targets {
			if t == target {
				ok = true
			}
		}
		if !ok {
			return "target_unknown", nil
		}
	}
	payload := it.Payload
	if it.RawB64 != "" {
		dec, err := base64.StdEncoding.DecodeString(it.RawB64)
		if err != nil {
			return "bad_base64", nil
		}
		payload = dec
	}
	maxBody, maxHeaders := w.Spec.limitsFor(r)
	if len(payload) > maxBody {
		return "payload_too_large", nil
	}
	for k, v := range it.Headers {
		if !validHeaderName(k) || strings.ContainsAny(v, "\r\n\x00") {
			return "bad_header", nil
		}
	}
	if headerBytes(it.Headers) > maxHeaders {
		return "headers_too_large", nil
	}
	env := &queue.Envelope{ID: strings.TrimSpace(id), Route: r.Path, Target: target, Payload: payload, Headers: it.Headers, State: queue.StateQueued}
	for _, ts := range []struct {
		raw string
		dst *time.Time
	}{{it.RecvAt, &env.ReceivedAt}, {it.NextAt, &env.NextRunAt}} {
		if strings.TrimSpace(ts.raw) == "" {
			continue
		}
		t, err := time.Parse(time.RFC3339Nano, strings.TrimSpace(ts.raw))
		if err != nil {
			return "bad_timestamp", nil
		}
		*ts.dst = t.UTC()
	}
	if _, exists := w.Model.Msgs[env.ID]; exists {
		return "id_exists", nil
	}
	return "", env
}

func validHeaderName(k string) bool {
	if k == "" {
		return false
	}
	for i := 0; i < len(k); i++ {
		c := k[i]
		if !(c >= 'a' && c <= 'z' || c >= 'A' && c <= 'Z' || c >= '0' && c <= '9' || strings.IndexByte("!#$%&'*+-.^_`|~", c) >= 0) {
			return false
		}
	}
	return true
}

func (w *PublishWorld) Publish(pr *PubReq) {
	w.Res.Ops++
	now := w.Clock.Peek()
	loc := "admin/publish"
	type wire struct {
		ID         string            `json:"id"`
		Route      string            `json:"route,omitempty"`
		Target     string            `json:"target,omitempty"`
		PayloadB64 string            `json:"payload_b64,omitempty"`
		Headers    map[string]string `json:"headers,omitempty"`
		ReceivedAt string            `json:"received_at,omitempty"`
		NextRunAt  string            `json:"next_run_at,omitempty"`
	}
	var items []wire
	var ids []string
	for i := range pr.Items {
		it := &pr.Items[i]
		if pr.ScopedApp != "" && it.Bad != "selector_hint" {
			it.Route = "" // the path says which endpoint is meant; only a deliberate hint stays
		}
		id := it.ID
		switch {
		case it.DupRef != nil && len(w.ids) > 0:
			id = w.ids[len(w.ids)-1-*it.DupRef%len(w.ids)]
		case id == "new" || it.DupRef != nil:
			w.seq++
			id = fmt.Sprintf("pub-%03d", w.seq)
		}
		ids = append(ids, id)
		b64 := it.RawB64
		if b64 == "" {
			b64 = base64.StdEncoding.EncodeToString(it.Payload)
		}
		items = append(items, wire{ID: id, Route: it.Route, Target: it.Target, PayloadB64: b64, Headers: it.Headers, ReceivedAt: it.RecvAt, NextRunAt: it.NextAt})

	}
	body := map[string]any{"items": items}
	if pr.Unknown {
		body["force"] = true
	}
	b, _ := json.Marshal(body)
	path := "/messages/publish"
	var scopedRoute *RouteSpec
	scopedRefused := 0 // request-level refusal of the scoped path: status (0 = none)
	if pr.ScopedApp != "" {
		path = "/applications/" + pr.ScopedApp + "/endpoints/" + pr.ScopedEP + "/messages/publish"
		loc = "admin/publish/scoped"
		for i := range w.Spec.Routes {
			if rr := &w.Spec.Routes[i]; rr.App == pr.ScopedApp && rr.Endpoint == pr.ScopedEP {
				scopedRoute = rr
			}
		}
		switch {
		case w.Spec.pubPolicy().managedOff:
			scopedRefused = 403
		case scopedRoute == nil:
			scopedRefused = 404
		case scopedRoute.PublishOff || scopedRoute.ManagedOff || w.Spec.pubPolicy().modeForbidden(scopedRoute):
			scopedRefused = 403
		}
	} else if w.Spec.pubPolicy().directOff {
		scopedRefused = 403 // the global direct path is switched off
	}
	req, err := NewRequest("POST", path, "admin.internal", "127.0.0.1:9", w.pubHeaders(pr), b, pr.Chunked)
	if err != nil {
		return
	}
	resp := w.Do("admin", w.Admin, req)
	if w.Res.Trouble != "" {
		return
	}
	var out struct {
		Published int    `json:"published"`
		Code      string `json:"code"`
		ItemIndex *int   `json:"item_index"`
	}
	_ = json.Unmarshal(resp.Body, &out)
	idx := -1
	if out.ItemIndex != nil {
		idx = *out.ItemIndex
	}
	w.Res.logf("publish n=%d token=%s reason=%v -> %d code=%q item_index=%d published=%d", len(items), pr.Token, !pr.NoReason, resp.Status, out.Code, idx, out.Published)
	defer w.sync("publish", loc)

	// reference verdict
	authOK := len(w.Spec.AdminTokens) == 0 || (pr.Token != "none" && pr.Token != "wrong")
	if !authOK {
		if resp.Status != 401 {
			w.add("C11.admin.unauthorised", "C11,C15", loc, "publish without a valid admin token answered %d", resp.Status)
		}
		w.Res.probe("publish.unauthorised")
		return
	}
	if scopedRefused != 0 {
		// the endpoint does not exist, its route does not permit managed publish, or the path is switched off by policy
		w.Res.probe(fmt.Sprintf("publish.path.refused.%d", scopedRefused))
		if resp.Status >= 200 && resp.Status < 300 {
			w.add("C15.accepted.invalid", "C15", loc, "publish (endpoint %s/%s) was accepted although the reference says %d (publish policy %v)", pr.ScopedApp, pr.ScopedEP, scopedRefused, w.Spec.PublishPolicy)
			w.adoptAll(now)
		}
		return
	}
	if scopedRoute != nil {
		w.Res.probe("publish.scoped")
	}
	var envs []queue.Envelope
	var invalid []int
	kinds := map[int]string{}
	seen := map[string]bool{}
	for i := range pr.Items {
		why, env := w.itemVerdict(&pr.Items[i], ids[i], seen, scopedRoute)
		seen[strings.TrimSpace(ids[i])] = true
		if why != "" {
			invalid = append(invalid, i)
			kinds[i] = why
			continue
		}
		envs = append(envs, *env)
	}
	pol := w.Spec.pubPolicy()
	reqInvalid := pr.NoReason || pr.Unknown || len(pr.Items) == 0 || (pol.needActor && !pr.Actor) || (pol.needRequestID && !pr.RequestID)
	if (pol.needActor && !pr.Actor) || (pol.needRequestID && !pr.RequestID) {
		w.Res.probe("publish.audit_identity_missing")
	}
	if reqInvalid || len(invalid) > 0 {
		w.Res.probe("publish.reference.reject")
		for _, k := range kinds {
			w.Res.probe("publish.bad." + k)
		}
		if resp.Status >= 200 && resp.Status < 300 {
			w.add("C15.accepted.invalid", "C15", loc, "batch with invalid item(s) %v (%v) / invalid request (no_reason=%v unknown_field=%v) was accepted (published=%d)", invalid, kinds, pr.NoReason, pr.Unknown, out.Published)
			// keep the model in step
			w.adoptAll(now)
			return
		}
		if !reqInvalid && len(invalid) > 0 {
			ok := false
			for _, i := range invalid {
				if i == idx {
					ok = true
				}
			}
			onlyLate := true // id_exists / queue conditions may be reported without an index
			for _, k := range kinds {
				if k != "id_exists" {
					onlyLate = false
				}
			}
			// "naming the first offending item": items are checked one after the
			// other; ids already in the queue are looked up once the whole batch
			// has passed the per-item checks
			// (the request body is parsed first - blank and repeated ids are
			// shape errors of the body, found before any item is looked at for
			// what it asks)
			phase := func(k string) int {
				switch k {
				case "blank_id", "dup_in_batch":
					return 0
				case "id_exists":
					return 2
				}
				return 1
			}
			firstEarly, firstPhase := -1, 3
			for _, i := range invalid {
				if ph := phase(kinds[i]); ph < 2 && (ph < firstPhase || ph == firstPhase && i < firstEarly) {
					firstEarly, firstPhase = i, ph
				}
			}
			if len(invalid) > 1 {
				w.Res.probe("publish.several_invalid_items")
			}
			if !ok && !(idx == -1 && onlyLate) {
				w.add("C15.error.index", "C15", loc, "rejected batch: item_index=%d, offending items are %v (%v)", idx, invalid, kinds)
			} else if len(invalid) > 1 && firstEarly >= 0 && idx != firstEarly {
				w.add("C15.error.first", "C15", loc, "rejected batch: item_index=%d (code %q), but the first offending item is %d (%s); offending items are %v (%v)", idx, out.Code, firstEarly, kinds[firstEarly], invalid, kinds)
			} else if len(invalid) == 1 && idx != invalid[0] && idx != -1 {
				w.add("C15.error.index", "C15", loc, "rejected batch: item_index=%d, the only offending item is %d (%s)", idx, invalid[0], kinds[invalid[0]])
			}
		}
		if out.Code == "" {
			w.add("C15.error.structured", "C15", loc, "rejection %d carries no structured error code: %s", resp.Status, truncS(resp.Body, 120))
		}
		return // nothing may have changed: sync() checks the listing against the unchanged model
	}
	// every item acceptable: all stored, or the queue refused (full) and nothing stored
	w.Res.probe("publish.reference.accept")
	switch {
	case resp.Status >= 200 && resp.Status < 300:
		if out.Published != len(envs) {
			w.add("C15.published.count", "C15", loc, "accepted batch of %d reports published=%d", len(envs), out.Published)
		}
		for _, v := range w.Model.Enqueue(now, envs, true, len(envs), nil) {
			v.Loc = loc
			w.Res.Violations = append(w.Res.Violations, v)
			w.Res.logf("  VIOLATION %s", v.String())
		}
		for _, e := range envs {
			w.ids = append(w.ids, e.ID)
		}
		// the clause itself, independent of the queue model: a 2xx answer means
		// every item of the batch is in the queue now, once
		if items, err := w.Listing(); err == nil {
			have := map[string]int{}
			for _, it := range items {
				have[it.ID]++
			}
			for _, e := range envs {
				if e.ID != "" && have[e.ID] != 1 {
					w.add("C15.accepted.missing", "C15,C01", loc, "publish answered %d published=%d but item %q is in the queue %d times right afterwards", resp.Status, out.Published, e.ID, have[e.ID])
					break
				}
			}
		}
		w.Res.probe("publish.accepted")
	case resp.Status == 503:
		for _, v := range w.Model.Enqueue(now, envs, true, 0, queue.ErrQueueFull) {
			v.Loc = loc
			v.Detail = "publish answered 503: " + v.Detail
			w.Res.Violations = append(w.Res.Violations, v)
			w.Res.logf("  VIOLATION %s", v.String())
		}
		w.Res.probe("publish.503")
	default:
		w.add("C15.rejected.valid", "C15", loc, "batch in which every item is acceptable was answered %d code=%q item_index=%d", resp.Status, out.Code, idx)
	}
}

func (w *PublishWorld) adoptAll(now time.Time) {
	items, _ := w.Listing()
	for _, it := range items {
		if _, ok := w.Model.Msgs[it.ID]; ok {
			continue
		}
		w.Model.Enqueue(now, []queue.Envelope{{ID: it.ID, Route: it.Route, Target: it.Target, Payload: it.Payload, Headers: it.Headers, Trace: it.Trace, ReceivedAt: it.ReceivedAt, NextRunAt: it.NextRunAt, State: it.State}}, false, 0, nil)
		w.ids = append(w.ids, it.ID)
	}
}

// Lease moves some messages into other states through the store (set-up for C14).
func (w *PublishWorld) Churn(kind string, n int) {
	w.Res.Ops++
	now := w.Clock.Peek()
	switch kind {
	case "dequeue":
		req := queue.DequeueRequest{Batch: n, LeaseTTL: time.Minute}
		resp, err := w.Node.RawStore.Dequeue(req)
		for _, v := range w.Model.Dequeue(now, req, resp, err) {
			v.Loc = "admin/setup"
			w.Res.Violations = append(w.Res.Violations, v)
		}
		for _, it := range resp.Items {
			if n%2 == 0 {
				err := w.Node.RawStore.MarkDead(it.LeaseID, "no_retry")
				w.Model.LeaseSingle(now, opDead, it.LeaseID, 0, "no_retry", err)
			}
		}
	}
	w.sync("churn", "admin/setup")
}

func (w *PublishWorld) idByRef(ref int) string {
	switch {
	case ref == -1:
		return ""
	case ref < 0 || len(w.ids) == 0:
		return fmt.Sprintf("unknown-%d", -ref)
	}
	return w.ids[len(w.ids)-1-ref%len(w.ids)]
}

// Mutate drives an operator mutation through the Admin API (C14).
func (w *PublishWorld) Mutate(m *AdminMut) {
	w.Res.Ops++
	now := w.Clock.Peek()
	loc := "admin/" + m.Kind
	var path string
	body := map[string]any{}
	var ids []string
	for _, r := range m.IDRefs {
		ids = append(ids, w.idByRef(r))
	}
	var op manageOp
	byFilter := strings.HasSuffix(m.Kind, "_f")
	switch m.Kind {
	case "cancel":
		path, op = "/messages/cancel", mCancel
	case "requeue":
		path, op = "/messages/requeue", mRequeue
	case "resume":
		path, op = "/messages/resume", mResume
	case "dlq_requeue":
		path, op = "/dlq/requeue", mDLQRequeue
	case "dlq_delete":
		path, op = "/dlq/delete", mDLQDelete
	case "cancel_f":
		path, op = "/messages/cancel_by_filter", mCancel
	case "requeue_f":
		path, op = "/messages/requeue_by_filter", mRequeue
	case "resume_f":
		path, op = "/messages/resume_by_filter", mResume
	}
	var freq queue.MessageManageFilterRequest
	if byFilter {
		f := m.Filter
		if m.Scoped > 0 && m.Scoped-1 < len(w.Spec.Routes) && w.Spec.Routes[m.Scoped-1].App != "" {
			// endpoint-scoped path: the URL says which route is meant, the body
			// carries the other criteria
			sr := &w.Spec.Routes[m.Scoped-1]
			path = "/applications/" + sr.App + "/endpoints/" + sr.Endpoint + strings.TrimPrefix(path, "") // /messages/<op>_by_filter
			ff := *f
			ff.Route = ""
			f = &ff
			loc += "/scoped"
			w.Res.probe("admin.mutation.scoped_filter")
			defer func(route string) { _ = route }(sr.Path)
			freq = queue.MessageManageFilterRequest{Route: sr.Path, Target: f.Target, State: queue.State(f.State), Limit: f.Limit, PreviewOnly: f.Preview}
		} else {
			freq = queue.MessageManageFilterRequest{Route: f.Route, Target: f.Target, State: queue.State(f.State), Limit: f.Limit, PreviewOnly: f.Preview}
		}
		if f.Route != "" {
			body["route"] = f.Route
		}
		if f.Target != "" {
			body["target"] = f.Target
		}
		if f.State != "" {
			body["state"] = f.State
		}
		if f.Limit != 0 {
			body["limit"] = f.Limit
		}
		if f.Preview {
			body["preview_only"] = true
		}
		if f.BeforeRef != nil {
			if x := w.Model.Msgs[w.idByRef(*f.BeforeRef)]; x != nil {
				freq.Before = x.ReceivedAt.Add(time.Duration(f.BeforeOff))
				body["before"] = freq.Before.Format(time.RFC3339Nano)
			}
		}
	} else {
		body["ids"] = ids
	}
	b, _ := json.Marshal(body)
	req, err := NewRequest("POST", path, "admin.internal", "127.0.0.1:9", w.adminHeaders("ok", true), b)
	if err != nil {
		return
	}
	resp := w.Do("admin", w.Admin, req)
	if w.Res.Trouble != "" {
		return
	}
	var out map[string]any
	_ = json.Unmarshal(resp.Body, &out)
	num := func(k string) int {
		f, _ := out[k].(float64)
		return int(f)
	}
	changed := num("canceled") + num("requeued") + num("resumed") + num("deleted")
	w.Res.logf("admin %s ids=%d -> %d %s", m.Kind, len(ids), resp.Status, truncS(resp.Body, 160))
	defer w.sync("admin "+m.Kind, loc)
	if resp.Status == 404 {
		w.Res.Trouble = "admin endpoint " + path + " not found"
		return
	}
	if resp.Status != 200 {
		// request-level validation (empty id list, limit out of range, filter without criteria ...):
		// the contract is only that nothing changes, which sync() checks
		w.Res.probe("admin.mutation.rejected")
		return
	}
	w.Res.probe("admin.mutation.ok")
	var vs []Violation
	if byFilter {
		prev, _ := out["preview_only"].(bool)
		vs = w.Model.ManageFilter(now, op, freq, changed, num("matched"), prev, nil)
	} else {
		_, hasMatched := out["matched"]
		vs = w.Model.ManageIDs(now, op, ids, changed, num("matched"), hasMatched, nil)
	}
	for _, v := range vs {
		v.Loc = loc
		w.Res.Violations = append(w.Res.Violations, v)
		w.Res.logf("  VIOLATION %s", v.String())
	}
}

type publishSys struct {
	Spec *SysSpec   `json:"spec"`
	Pubs []PubReq   `json:"pubs"`
	Muts []AdminMut `json:"muts"`
}

func RunPublishProgram(p *Program) *Result {
	var sys publishSys
	if err := json.Unmarshal(p.Sys, &sys); err != nil || sys.Spec == nil {
		return &Result{Trouble: "bad sys spec"}
	}
	spec := *sys.Spec
	sw, err := NewSysWorld(&spec, p.Offset, SysOptions{Seed: 1})
	if err != nil {
		return &Result{Trouble: "node: " + err.Error() + "\n" + spec.Render()}
	}
	w := &PublishWorld{SysWorld: sw}
	w.Model = NewModel(sysQConfig(&spec))
	defer w.Close()
	w.Res.logf("publish world backend=%s routes=%d max_depth=%d/%s", spec.Backend, len(spec.Routes), spec.MaxDepth, spec.DropPolicy)
	for _, s := range p.Steps {
		switch s.Op {
		case "publish":
			if s.Batch < len(sys.Pubs) {
				pr := sys.Pubs[s.Batch]
				w.Publish(&pr)
			}
		case "pubrace":
			w.PubRace(s)
		case "mutate":
			if s.Batch < len(sys.Muts) {
				m := sys.Muts[s.Batch]
				w.Mutate(&m)
			}
		case "churn":
			w.Churn("dequeue", s.Batch)
		case "advance":
			w.Clock.Advance(s.D)
			w.Res.Ops++
			w.Res.logf("advance %s", s.D)
		default:
			w.Res.Trouble = "publish world: unknown op " + s.Op
		}
		if w.Res.Trouble != "" {
			break
		}
	}
	return w.Res
}

// PubRace: two publishes in flight at once that have one id in common (a producer retrying a batch while its
// first attempt is still being served, or two producers that chose the same id). Every statement of the publish
// handlers and both sides of the store calls are scheduling points; the choice list decides who proceeds. What
// holds in every interleaving (C15, all-or-nothing): a publish answered 2xx has every one of its items in the
// queue exactly once, a publish answered anything else has left none of the items that only it carries, and
// the contested id is there at most once. Runs only without queue limits (an eviction by the other publish
// would be legitimate) and is the last step of its program (the model does not follow it).
func (w *PublishWorld) PubRace(s Step) {
	if w.Spec.MaxDepth > 0 || w.Spec.pubPolicy().directOff || w.Spec.pubPolicy().needActor || w.Spec.pubPolicy().needRequestID {
		return
	}
	var r *RouteSpec
	for i := range w.Spec.Routes {
		rr := &w.Spec.Routes[i]
		if !rr.PublishOff && !rr.DirectOff && !rr.ManagedOff && rr.App == "" && len(rr.targets()) > 0 && !w.Spec.pubPolicy().modeForbidden(rr) && rr.Channel == "" {
			r = rr
			break
		}
	}
	if r == nil {
		return
	}
	w.Res.Ops++
	target := r.targets()[0]
	type wire struct {
		ID         string `json:"id"`
		Route      string `json:"route"`
		Target     string `json:"target,omitempty"`
		PayloadB64 string `json:"payload_b64"`
	}
	w.seq++
	shared := fmt.Sprintf("pub-%03d-contested", w.seq)
	mk := func(own []string, sharedAt int) ([]byte, []string) {
		var items []wire
		var ids []string
		k := 0
		for i := 0; i <= len(own); i++ {
			id := shared
			if i != sharedAt {
				if k >= len(own) {
					break
				}
				id = own[k]
				k++
			}
			ids = append(ids, id)
			items = append(items, wire{ID: id, Route: r.Path, Target: target, PayloadB64: base64.StdEncoding.EncodeToString([]byte("race-" + id))})
		}
		b, _ := json.Marshal(map[string]any{"items": items})
		return b, ids
	}
	ownA := []string{fmt.Sprintf("pub-%03d-a1", w.seq), fmt.Sprintf("pub-%03d-a2", w.seq)}
	ownB := []string{fmt.Sprintf("pub-%03d-b1", w.seq)}
	atA, atB := 1+s.Batch%2, 0
	if s.Pad {
		atB = 1
	}
	bodyA, idsA := mk(ownA, atA)
	bodyB, idsB := mk(ownB, atB)
	hdr := w.pubHeaders(&PubReq{Token: "ok"})
	reqA, errA := NewRequest("POST", "/messages/publish", "admin.internal", "127.0.0.1:9", hdr, bodyA)
	reqB, errB := NewRequest("POST", "/messages/publish", "admin.internal", "127.0.0.1:9", hdr, bodyB)
	if errA != nil || errB != nil {
		return
	}
	tasks := []*Task{w.Start("pubrace", w.Admin, reqA), w.Start("pubrace", w.Admin, reqB)}
	methods := []string{"LookupMessages", "EnqueueBatch", "Enqueue"}
	for _, m := range methods {
		w.armedStore[m], w.armedStore[m+".after"] = true, true
	}
	w.Sched.SetArmed(func(l string) bool {
		return strings.HasPrefix(l, "admin.Server.handleMessagesPublish") || strings.HasPrefix(l, "store.")
	})
	w.Sched.DetectBlocked = true
	k := w.Sched.InterleaveBlocking(tasks, s.Sched)
	w.Sched.SetArmed(nil)
	w.Sched.DetectBlocked = false
	for _, m := range methods {
		delete(w.armedStore, m)
		delete(w.armedStore, m+".after")
	}
	if k != "done" {
		if k == "deadlock" {
			w.add("pubrace.deadlock", "C15", "admin/publish/race", "two concurrent publishes are stuck waiting for one another")
			return
		}
		w.Res.Trouble = "pubrace: " + k + " " + w.Sched.Trouble
		return
	}
	stA, stB := w.finish(tasks[0], "done").Status, w.finish(tasks[1], "done").Status
	if w.Sched.Switches > 1 {
		w.Res.probe("pubrace.interleaved")
	}
	items, err := w.Listing()
	if err != nil {
		w.Res.Trouble = "pubrace: listing: " + err.Error()
		return
	}
	have := map[string]int{}
	for _, it := range items {
		have[it.ID]++
	}
	w.Res.logf("publish race: A %v -> %d, B %v -> %d", idsA, stA, idsB, stB)
	loc := "admin/publish/race"
	judge := func(name string, st int, ids []string) {
		ok := st >= 200 && st < 300
		for _, id := range ids {
			switch {
			case ok && have[id] != 1:
				w.add("C15.accepted.missing", "C15,C01", loc, "publish %s was answered %d but its item %q is in the queue %d times", name, st, id, have[id])
			case !ok && id != shared && have[id] != 0:
				w.add("C15.refused.stored", "C15", loc, "publish %s was answered %d (refused) but its item %q is in the queue: the batch was not all-or-nothing", name, st, id)
			}
		}
	}
	judge("A", stA, idsA)
	judge("B", stB, idsB)
	if have[shared] > 1 {
		w.add("C15.duplicate.stored", "C15,C02", loc, "the contested id %q is in the queue %d times", shared, have[shared])
	}
	if (stA >= 200 && stA < 300) && (stB >= 200 && stB < 300) {
		w.add("C15.duplicate.accepted", "C15", loc, "two publishes carrying the same id %q were both answered 2xx (%d, %d)", shared, stA, stB)
	}
}

// ---- generator ---------------------------------------------------------------

func genPubItem(t *rapid.T, spec *SysSpec, bad string, fixed ...*RouteSpec) PubItem {
	r := spec.Routes[rapid.IntRange(0, len(spec.Routes)-1).Draw(t, "route")]
	for i := 0; i < 4 && (r.PublishOff || r.DirectOff || r.App != ""); i++ {
		r = spec.Routes[rapid.IntRange(0, len(spec.Routes)-1).Draw(t, "route2")]
	}
	if len(fixed) > 0 && fixed[0] != nil {
		r = *fixed[0] // endpoint-scoped publish: every item belongs to the endpoint's route
	}
	it := PubItem{ID: "new", Route: r.Path, Bad: bad}
	tg := r.targets()
	if len(tg) > 1 || rapid.Bool().Draw(t, "explicit_target") {
		it.Target = tg[rapid.IntRange(0, len(tg)-1).Draw(t, "target")]
	}
	it.Payload = []byte(fmt.Sprintf("pay-%d", rapid.IntRange(0, 999).Draw(t, "pay")))
	if rapid.IntRange(0, 3).Draw(t, "hdr") == 0 {
		it.Headers = map[string]string{"X-Pub": "1", "x-lower": "v"}
	}
	if rapid.IntRange(0, 5).Draw(t, "ts") == 0 {
		it.RecvAt = Epoch.Add(-time.Hour).Format(time.RFC3339Nano)
	}
	if rapid.IntRange(0, 5).Draw(t, "next") == 0 {
		it.NextAt = Epoch.Add(time.Hour).Format(time.RFC3339)
	}
	maxBody, _ := spec.limitsFor(&r)
	switch bad {
	case "selector_hint":
		// endpoint-scoped publish only: the item names a route although the path
		// already says which endpoint is meant (the wire keeps the route)
	case "unknown_route":
		it.Route = "/no/such/route"
		// near misses of a configured route (managed ones included): another spelling is another route
		base := spec.Routes[rapid.IntRange(0, len(spec.Routes)-1).Draw(t, "nearroute.of")].Path
		cands := []string{it.Route, it.Route, base + "/", "/" + base, base[:1] + "./" + base[1:], strings.ToUpper(base), base + "/../" + strings.TrimPrefix(base, "/")}
		c := cands[rapid.IntRange(0, len(cands)-1).Draw(t, "nearroute")]
		known := false
		for _, rr := range spec.Routes {
			if rr.Path == c {
				known = true
			}
		}
		if !known {
			it.Route = c
		}
	case "publish_disabled":
		for _, rr := range spec.Routes {
			if rr.PublishOff || rr.DirectOff {
				it.Route = rr.Path
				it.Target = ""
				if t := rr.targets(); len(t) > 1 {
					it.Target = t[0]
				}
			}
		}
	case "payload_too_large":
		if maxBody <= 4096 {
			it.Payload = make([]byte, maxBody+1)
		} else {
			it.RawB64 = "%%%"
		}
	case "bad_base64":
		it.RawB64 = rapid.SampledFrom([]string{"%%%", "abc", "YWJj=", "YW Jj"}).Draw(t, "b64")
	case "bad_header":
		it.Headers = map[string]string{rapid.SampledFrom([]string{"Bad Header", "X:Y", "", "X-Ok"}).Draw(t, "hname"): "v\r\nInjected: 1"}
	case "bad_timestamp":
		it.RecvAt = rapid.SampledFrom([]string{"yesterday", "2030-13-01T00:00:00Z", "1893456000"}).Draw(t, "badts")
	case "blank_id":
		it.ID = rapid.SampledFrom([]string{"", "   "}).Draw(t, "blank")
	case "id_exists":
		it.DupRef = intp(rapid.IntRange(0, 5).Draw(t, "dupref"))
	case "target_unknown":
		it.Target = "https://not-a-target.example/x"
		if len(tg) > 0 {
			// near misses of one of the route's own targets: another spelling is
			// another target (a message stored under it is served by nobody)
			base := tg[rapid.IntRange(0, len(tg)-1).Draw(t, "near.of")]
			flip := func(s string) string {
				if i := strings.LastIndex(s, "/"); i >= 0 && i+1 < len(s) && strings.Contains(s, "://") {
					return s[:i+1] + strings.ToUpper(s[i+1:])
				}
				return strings.ToUpper(s)
			}
			cands := []string{it.Target, flip(base), base + "/", base + "x", base[:len(base)-1]}
			c := cands[rapid.IntRange(0, len(cands)-1).Draw(t, "near")]
			if c != base && strings.TrimSpace(c) != "" {
				it.Target = c
			}
		}
	case "boundary_payload":
		it.Bad = ""
		if maxBody <= 4096 {
			it.Payload = make([]byte, maxBody)
		}
	}
	return it
}

var pubBadKinds = []string{"unknown_route", "publish_disabled", "payload_too_large", "bad_base64", "bad_header", "bad_timestamp", "blank_id", "id_exists", "target_unknown", "dup_in_batch"}

func GenPublishProgram(t *rapid.T, mutations bool) *Program {
	p := &Program{World: "publish"}
	spec := &SysSpec{Backend: rapid.SampledFrom([]string{"memory", "sqlite"}).Draw(t, "backend")}
	spec.PullTokens = []string{"pull-token-1"}
	if rapid.Bool().Draw(t, "admin_tokens") {
		spec.AdminTokens = []string{"admin-tok-1"}
	}
	nr := rapid.IntRange(1, 4).Draw(t, "routes")
	for i := 0; i < nr; i++ {
		r := RouteSpec{Path: fmt.Sprintf("/p%d", i)}
		switch rapid.IntRange(0, 3).Draw(t, "mode") {
		case 0:
			r.Deliver = []DeliverSpec{{URL: fmt.Sprintf("https://t0.example/p%d", i)}, {URL: fmt.Sprintf("https://t1.example/p%d", i)}}
			r.Concurrency = 1
		case 1:
			r.Deliver = []DeliverSpec{{URL: fmt.Sprintf("https://t0.example/p%d", i)}}
			r.Concurrency = 1
			r.Channel = "outbound"
		default:
			r.PullPath = fmt.Sprintf("/pull/p%d", i)
			if rapid.IntRange(0, 3).Draw(t, "internal") == 0 {
				r.Channel = "internal"
			}
		}
		switch rapid.IntRange(0, 7).Draw(t, "pubflags") {
		case 0:
			r.PublishOff = true
		case 1:
			r.DirectOff = true
		}
		if rapid.IntRange(0, 2).Draw(t, "managed?") == 0 {
			// a managed endpoint: publish goes through the endpoint-scoped path
			r.App, r.Endpoint = fmt.Sprintf("app%d", i%2), fmt.Sprintf("ep%d", i)
			if rapid.IntRange(0, 5).Draw(t, "managed_off") == 4 {
				r.ManagedOff = true
			}
		}
		if rapid.IntRange(0, 2).Draw(t, "limits") == 0 {
			r.MaxBody = rapid.SampledFrom([]int{8, 64}).Draw(t, "max_body")
			r.MaxHeaders = rapid.SampledFrom([]int{32, 256}).Draw(t, "max_headers")
		}
		spec.Routes = append(spec.Routes, r)
	}
	if !mutations && rapid.IntRange(0, 2).Draw(t, "depth?") == 0 {
		spec.MaxDepth = rapid.IntRange(1, 5).Draw(t, "max_depth")
		spec.DropPolicy = rapid.SampledFrom([]string{"reject", "drop_oldest"}).Draw(t, "drop")
	}
	if rapid.IntRange(0, 2).Draw(t, "policy?") == 1 {
		// defaults.publish_policy switches (one or two)
		all := []string{"direct off", "managed off", "allow_pull_routes off", "allow_deliver_routes off", "require_actor on", "require_request_id on"}
		spec.PublishPolicy = append(spec.PublishPolicy, rapid.SampledFrom(all).Draw(t, "policy.1"))
		if rapid.Bool().Draw(t, "policy.two") {
			if l := rapid.SampledFrom(all).Draw(t, "policy.2"); l != spec.PublishPolicy[0] {
				spec.PublishPolicy = append(spec.PublishPolicy, l)
			}
		}
	}
	sys := publishSys{Spec: spec}
	n := rapid.IntRange(2, 16).Draw(t, "nsteps")
	for i := 0; i < n; i++ {
		k := rapid.IntRange(0, 19).Draw(t, "kind")
		switch {
		case k < 10 || (!mutations && k < 16):
			pr := PubReq{Token: "ok"}
			cnt := rapid.SampledFrom([]int{1, 1, 2, 3, 5, 12}).Draw(t, "count")
			badAt := -1
			bad := ""
			kindsPool := pubBadKinds
			var scoped *RouteSpec
			var managed []int
			for ri := range spec.Routes {
				if spec.Routes[ri].App != "" {
					managed = append(managed, ri)
				}
			}
			if len(managed) > 0 && rapid.IntRange(0, 2).Draw(t, "scoped?") == 0 {
				scoped = &spec.Routes[managed[rapid.IntRange(0, len(managed)-1).Draw(t, "scoped.route")]]
				pr.ScopedApp, pr.ScopedEP = scoped.App, scoped.Endpoint
				kindsPool = []string{"selector_hint", "selector_hint", "payload_too_large", "bad_base64", "bad_header", "bad_timestamp", "blank_id", "id_exists", "target_unknown", "dup_in_batch"}
				if rapid.IntRange(0, 11).Draw(t, "scoped.unknown") == 7 {
					pr.ScopedEP = "no-such-endpoint"
				}
			}
			if rapid.IntRange(0, 9).Draw(t, "invalid?") < 5 {
				badAt = rapid.IntRange(0, cnt-1).Draw(t, "bad_at")
				bad = rapid.SampledFrom(kindsPool).Draw(t, "bad_kind")
			}
			// sometimes a second invalid item of another kind, before or after the first
			bad2At, bad2 := -1, ""
			if badAt >= 0 && cnt > 1 && rapid.IntRange(0, 2).Draw(t, "invalid2?") == 0 {
				bad2At = rapid.IntRange(0, cnt-2).Draw(t, "bad2_at")
				if bad2At >= badAt {
					bad2At++
				}
				for k := 0; k < 4; k++ {
					bad2 = rapid.SampledFrom(kindsPool).Draw(t, "bad2_kind")
					if bad2 != bad && bad2 != "dup_in_batch" {
						break
					}
					bad2 = "bad_base64"
				}
			}
			for j := 0; j < cnt; j++ {
				b := ""
				if j == badAt {
					b = bad
				} else if j == bad2At {
					b = bad2
				} else if rapid.IntRange(0, 9).Draw(t, "boundary") == 0 {
					b = "boundary_payload"
				}
				pr.Items = append(pr.Items, genPubItem(t, spec, b, scoped))
			}
			if bad == "dup_in_batch" && cnt > 1 {
				src := 0
				if badAt == 0 {
					src = 1
					badAt, src = src, badAt
				}
				pr.Items[badAt].ID = "fixed-dup"
				pr.Items[src].ID = "fixed-dup"
				pr.Items[badAt].Bad = "dup_in_batch"
			}
			switch rapid.IntRange(0, 14).Draw(t, "reqbad") {
			case 0:
				pr.NoReason = true
			case 1:
				pr.Token = rapid.SampledFrom([]string{"none", "wrong"}).Draw(t, "tok")
			case 2:
				pr.Unknown = true
			}
			pr.Chunked = rapid.IntRange(0, 4).Draw(t, "chunked") == 0
			pr.Actor = rapid.IntRange(0, 3).Draw(t, "actor") != 1
			pr.RequestID = rapid.IntRange(0, 3).Draw(t, "reqid") != 1
			sys.Pubs = append(sys.Pubs, pr)
			p.Steps = append(p.Steps, Step{Op: "publish", Batch: len(sys.Pubs) - 1})
		case k < 17 && mutations:
			m := AdminMut{Kind: rapid.SampledFrom([]string{"cancel", "requeue", "resume", "dlq_requeue", "dlq_delete", "cancel_f", "requeue_f", "resume_f"}).Draw(t, "mkind")}
			if strings.HasSuffix(m.Kind, "_f") {
				g := &storeGen{t: t}
				f := g.filterSpec("f", false)
				f.Route = ""
				if rapid.Bool().Draw(t, "froute") {
					f.Route = spec.Routes[rapid.IntRange(0, len(spec.Routes)-1).Draw(t, "fr")].Path
				}
				f.Target = ""
				if f.Limit < 0 || f.Limit > 1000 {
					f.Limit = 0
				}
				m.Filter = f
			} else {
				cnt := rapid.IntRange(1, 4).Draw(t, "nids")
				for j := 0; j < cnt; j++ {
					switch rapid.IntRange(0, 9).Draw(t, "idkind") {
					case 0:
						m.IDRefs = append(m.IDRefs, -2)
					default:
						m.IDRefs = append(m.IDRefs, rapid.IntRange(0, 9).Draw(t, "idref"))
					}
				}
				if cnt > 1 && rapid.IntRange(0, 3).Draw(t, "dupid") == 0 {
					m.IDRefs[cnt-1] = m.IDRefs[0]
				}
			}
			if strings.HasSuffix(m.Kind, "_f") {
				var managed []int
				for ri := range spec.Routes {
					if spec.Routes[ri].App != "" {
						managed = append(managed, ri)
					}
				}
				if len(managed) > 0 && rapid.IntRange(0, 2).Draw(t, "scopedf?") == 1 {
					m.Scoped = 1 + managed[rapid.IntRange(0, len(managed)-1).Draw(t, "scopedf")]
				}
			}
			sys.Muts = append(sys.Muts, m)
			p.Steps = append(p.Steps, Step{Op: "mutate", Batch: len(sys.Muts) - 1})
		case k < 19:
			p.Steps = append(p.Steps, Step{Op: "churn", Batch: rapid.IntRange(1, 4).Draw(t, "n")})
		default:
			p.Steps = append(p.Steps, Step{Op: "advance", D: rapid.SampledFrom([]time.Duration{time.Second, time.Minute, 2 * time.Minute}).Draw(t, "d")})
		}
	}
	if rapid.IntRange(0, 3).Draw(t, "pubrace?") == 0 {
		// end with two publishes in flight at once that have one id in common
		st := Step{Op: "pubrace", Batch: rapid.IntRange(0, 1).Draw(t, "pubrace.at"), Pad: rapid.Bool().Draw(t, "pubrace.b")}
		type seg struct{ who, n int }
		segs := rapid.SliceOfN(rapid.Custom(func(t *rapid.T) seg {
			return seg{rapid.IntRange(0, 1).Draw(t, "who"), rapid.SampledFrom([]int{1, 2, 3, 5, 8, 13, 21, 34, 55, 89}).Draw(t, "len")}
		}), 0, 8).Draw(t, "pubrace.sched")
		for _, sg := range segs {
			for i := 0; i < sg.n && len(st.Sched) < 300; i++ {
				st.Sched = append(st.Sched, sg.who)
			}
		}
		p.Steps = append(p.Steps, st)
	}
	p.Sys, _ = json.Marshal(sys)
	return p
}

func init() {
	stub := map[string]string{
		"admin.Server (handler from the *http.Server startServers built; publish policy wiring from compiled defaults and route flags), queue store": "real",
		"clock": "simulated",
	}
	Register(&CheckSpec{
		Prop: "C15", World: "publish",
		Gen: func(t *rapid.T) *Program { return GenPublishProgram(t, false) }, Run: RunPublishProgram,
		NonTrivial: func(p *Program, r *Result) bool {
			return r.Probes["publish.reference.accept"]+r.Probes["publish.reference.reject"] >= 2
		},
		Rule:     "POST /messages/publish batches of 1-12 items with zero or one invalid item of every kind at every position (unknown route, publish disabled by route flag, payload over max_body, invalid base64, invalid header name/value, bad timestamp, blank id, id repeated in the batch, id already queued, unknown target), request-level faults (missing audit reason, unknown fields, missing/wrong admin token), pull / single- and multi-target deliver / outbound / internal routes, nearly full queues under both drop policies; oracle: reference validator -> reject => listing unchanged and item_index names the offending item; accept => every item stored once, queued, one target, or 503 with nothing stored when the model says the queue is full; one in four programs ends with two publishes in flight at once that share an id (statement-level interleaving of the handler and the store calls: a 2xx publish has all its items once, a refused one none of its own, never two 2xx); near-miss spellings of configured routes as unknown routes; non-trivial = >=2 publishes judged; distinct = step-kind sequences",
		RealStub: stub,
		Quick:    5000, Thorough: 120000,
	})
	Register(&CheckSpec{
		Prop: "C14", World: "admin",
		Gen: func(t *rapid.T) *Program { return GenPublishProgram(t, true) }, Run: RunPublishProgram,
		NonTrivial: func(p *Program, r *Result) bool { return r.Probes["admin.mutation.ok"] >= 1 },
		Rule:       "admin API part: populations created by publish and moved into leased/dead states; cancel/requeue/resume/DLQ requeue/delete by id and by filter through the Admin HTTP handlers (id lists with duplicates and unknown ids, filters with state/route/before/limit/preview); oracle: reference selection and counts, everything else unchanged; request-level rejections change nothing; non-trivial = >=1 accepted mutation",
		RealStub:   stub,
		Quick:      4000, Thorough: 100000,
	})
}
