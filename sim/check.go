package sim

import (
	"encoding/json"
	"fmt"
	"hash/fnv"
	"os"
	"path/filepath"
	"sort"
	"strings"
	"time"

	"pgregory.net/rapid"
)

// CheckSpec: one property check = generator + executor.
type CheckSpec struct {
	Prop  string
	World string
	Gen   func(t *rapid.T) *Program
	Run   func(p *Program) *Result
	// NonTrivial decides whether a run counts as non-trivial for the evidence.
	NonTrivial  func(p *Program, r *Result) bool
	Rule        string
	RealStub    map[string]string
	Assumptions []string
	// Enum, when set, lists a finite case space that is executed completely
	// (by worker 0) instead of drawing programs with rapid.
	Enum     func() []*Program
	Level    string // evidence level (exploration | fault_enumeration | ...)
	Quick    int    // total runs, quick tier (all workers together)
	Thorough int    // total runs, thorough tier
}

var Registry = map[string]*CheckSpec{}

func Register(c *CheckSpec) { Registry[c.Prop+"/"+c.World] = c }

// KnownFinding: a confirmed, recorded defect. Matching is by exact signature
// (rule + location), so another violation of the same property still alarms.
type KnownFinding struct {
	Property  string `json:"property"`
	Signature string `json:"signature"`
	What      string `json:"what"`
	Status    string `json:"status"` // open | fixed
	Commit    string `json:"commit,omitempty"`
}

func LoadKnownFindings(path string) ([]KnownFinding, error) {
	b, err := os.ReadFile(path)
	if err != nil {
		if os.IsNotExist(err) {
			return nil, nil
		}
		return nil, err
	}
	var f struct {
		Findings []KnownFinding `json:"findings"`
	}
	if err := json.Unmarshal(b, &f); err != nil {
		return nil, err
	}
	return f.Findings, nil
}

// Signature identifies a violation: rule plus normalised location.
func (v Violation) Signature() string {
	if v.Loc == "" {
		return v.Rule
	}
	return v.Rule + "@" + v.Loc
}

// Report is what one worker process writes; the driver merges them.
type Report struct {
	Prop        string            `json:"prop"`
	World       string            `json:"world"`
	Seed        int64             `json:"seed"`
	Evaluations int               `json:"evaluations"`
	NonTrivial  int               `json:"nontrivial"`
	Shapes      []uint64          `json:"shapes"` // distinct non-trivial program shapes (hashes)
	States      []uint64          `json:"states"` // distinct model states (hashes)
	Inters      []uint64          `json:"inters"` // distinct interleavings (hashes)
	Ops         int               `json:"ops"`
	SimNS       int64             `json:"sim_ns"`
	Faults      map[string]int    `json:"faults"`
	Probes      map[string]int    `json:"probes"`
	Samples     []json.RawMessage `json:"samples"`
	WallS       float64           `json:"wall_s"`
	Known       map[string]int    `json:"known"`       // signature -> times re-observed
	Other       map[string]int    `json:"other_props"` // violations of other properties seen (rule -> n), informational
	Failure     *Failure          `json:"failure,omitempty"`
	Trouble     string            `json:"trouble,omitempty"`
	Exhaustive  bool              `json:"exhaustive,omitempty"`
	Corpus      int               `json:"corpus,omitempty"`

	EventSink        *os.File `json:"-"`
	IgnoreViolations bool     `json:"-"`

	shapeSet map[uint64]bool
	stateSet map[uint64]bool
	interSet map[uint64]bool
	start    time.Time
}

type Failure struct {
	Violation Violation       `json:"violation"`
	Signature string          `json:"signature"`
	Program   json.RawMessage `json:"program"`
	Events    []string        `json:"events"`
	size      int
}

func hash64(s string) uint64 {
	h := fnv.New64a()
	_, _ = h.Write([]byte(s))
	return h.Sum64()
}

func NewReport(prop, world string, seed int64) *Report {
	return &Report{Prop: prop, World: world, Seed: seed, Faults: map[string]int{}, Probes: map[string]int{}, Known: map[string]int{}, Other: map[string]int{},
		shapeSet: map[uint64]bool{}, stateSet: map[uint64]bool{}, interSet: map[uint64]bool{}, start: time.Now()}
}

func (rep *Report) Record(spec *CheckSpec, p *Program, r *Result) {
	rep.Evaluations++
	rep.Ops += r.Ops
	rep.SimNS += r.SimTime
	for k, v := range r.Faults {
		rep.Faults[k] += v
	}
	for k, v := range r.Probes {
		rep.Probes[k] += v
	}
	for _, s := range r.States {
		rep.stateSet[s] = true
	}
	if r.Inter != "" {
		rep.interSet[hash64(r.Inter)] = true
	}
	nt := spec.NonTrivial == nil || spec.NonTrivial(p, r)
	if nt {
		rep.NonTrivial++
		shape := p.Shape()
		fk := make([]string, 0, len(r.Faults))
		for k := range r.Faults {
			fk = append(fk, k)
		}
		sort.Strings(fk)
		shape += "#" + strings.Join(fk, ",") + "#" + r.Inter
		rep.shapeSet[hash64(shape)] = true
		if len(rep.Samples) < 3 && (rep.Evaluations%7 == 3 || len(rep.Samples) == 0) {
			if b := mustJSON(p); len(b) < 12000 {
				rep.Samples = append(rep.Samples, json.RawMessage(b))
			}
		}
	}
}

func mustJSON(v any) []byte {
	b, err := json.Marshal(v)
	if err != nil {
		return []byte(`"unmarshalable"`)
	}
	return b
}

func (rep *Report) Finish() {
	rep.WallS = time.Since(rep.start).Seconds()
	rep.Shapes = keys64(rep.shapeSet)
	rep.States = keys64(rep.stateSet)
	rep.Inters = keys64(rep.interSet)
}

func keys64(m map[uint64]bool) []uint64 {
	out := make([]uint64, 0, len(m))
	for k := range m {
		out = append(out, k)
	}
	sort.Slice(out, func(i, j int) bool { return out[i] < out[j] })
	return out
}

func (rep *Report) Write(path string) error {
	rep.Finish()
	b, err := json.Marshal(rep)
	if err != nil {
		return err
	}
	return os.WriteFile(path, b, 0o644)
}

// Classify splits the violations of one run for property `prop`.
func Classify(prop string, vs []Violation, known []KnownFinding) (own []Violation, knownHits []string, other []string) {
	for _, v := range vs {
		if !v.Has(prop) {
			other = append(other, v.Rule)
			continue
		}
		sig := v.Signature()
		hit := false
		for _, k := range known {
			if k.Status == "open" && k.Property == prop && k.Signature == sig {
				hit = true
				break
			}
		}
		if hit {
			knownHits = append(knownHits, sig)
		} else {
			own = append(own, v)
		}
	}
	return
}

// RunCheck is the body shared by the go-test entry point.
// Returns exit code semantics via the report: Failure (1) / Trouble (2).
// corpusPrograms loads the directed scenarios kept for a world:
// $VERIF_CORPUS/<world>/*.json, each a Program (or a replay file, whose
// "program" member is used). They are minimised schedules that once exposed a
// defect or a deliberately broken tree; worker 0 of every check of that world
// executes them before the seeded search starts.
func corpusPrograms(world string) ([]*Program, []string, error) {
	dir := os.Getenv("VERIF_CORPUS")
	if dir == "" {
		return nil, nil, nil
	}
	names, _ := filepath.Glob(filepath.Join(dir, world, "*.json"))
	sort.Strings(names)
	var out []*Program
	for _, n := range names {
		b, err := os.ReadFile(n)
		if err != nil {
			return nil, nil, err
		}
		var rf struct {
			Program json.RawMessage `json:"program"`
		}
		if err := json.Unmarshal(b, &rf); err == nil && len(rf.Program) > 0 {
			b = rf.Program
		}
		p := &Program{}
		if err := json.Unmarshal(b, p); err != nil {
			return nil, nil, fmt.Errorf("%s: %v", n, err)
		}
		out = append(out, p)
	}
	return out, names, nil
}

func RunCheck(t rapid.TB, spec *CheckSpec, rep *Report, known []KnownFinding) {
	if os.Getenv("VERIF_WORKER_INDEX") == "0" {
		progs, names, err := corpusPrograms(spec.World)
		if err != nil {
			rep.Trouble = "corpus: " + err.Error()
			t.Fatalf("TROUBLE: %s", rep.Trouble)
		}
		for i, p := range progs {
			res := spec.Run(p)
			rep.Record(spec, p, res)
			rep.Corpus++
			if rep.EventSink != nil {
				fmt.Fprintf(rep.EventSink, "== corpus %s\n%s\n", filepath.Base(names[i]), strings.Join(res.Events, "\n"))
			}
			if res.Trouble != "" {
				rep.Trouble = res.Trouble + "\ncorpus program: " + names[i]
				t.Fatalf("TROUBLE: %s", res.Trouble)
			}
			own, hits, other := Classify(spec.Prop, res.Violations, known)
			for _, h := range hits {
				rep.Known[h]++
			}
			for _, o := range other {
				rep.Other[o]++
			}
			if len(own) > 0 && !rep.IgnoreViolations && rep.Failure == nil {
				v := own[0]
				rep.Failure = &Failure{Violation: v, Signature: v.Signature(), Program: mustJSON(p), Events: res.Events, size: len(mustJSON(p))}
			}
		}
		if rep.Failure != nil {
			t.Fatalf("VIOLATION %s", rep.Failure.Violation.String())
		}
	}
	if spec.Enum != nil {
		if os.Getenv("VERIF_WORKER_INDEX") != "0" {
			return
		}
		rep.Exhaustive = true
		for _, p := range spec.Enum() {
			res := spec.Run(p)
			rep.Record(spec, p, res)
			if rep.EventSink != nil {
				fmt.Fprintf(rep.EventSink, "== %s\n%s\n", p.Hash(), strings.Join(res.Events, "\n"))
			}
			if res.Trouble != "" {
				rep.Trouble = res.Trouble + "\nprogram: " + string(mustJSON(p))
				t.Fatalf("TROUBLE: %s", res.Trouble)
			}
			own, hits, other := Classify(spec.Prop, res.Violations, known)
			for _, h := range hits {
				rep.Known[h]++
			}
			for _, o := range other {
				rep.Other[o]++
			}
			if len(own) > 0 && !rep.IgnoreViolations && rep.Failure == nil {
				v := own[0]
				rep.Failure = &Failure{Violation: v, Signature: v.Signature(), Program: mustJSON(p), Events: res.Events, size: len(mustJSON(p))}
			}
		}
		if rep.Failure != nil {
			t.Fatalf("VIOLATION %s", rep.Failure.Violation.String())
		}
		return
	}
	rapid.Check(t, func(rt *rapid.T) {
		p := spec.Gen(rt)
		res := spec.Run(p)
		rep.Record(spec, p, res)
		if rep.EventSink != nil {
			fmt.Fprintf(rep.EventSink, "== %s\n%s\n", p.Hash(), strings.Join(res.Events, "\n"))
		}
		if res.Trouble != "" {
			if rep.Trouble == "" {
				rep.Trouble = res.Trouble + "\nprogram: " + string(mustJSON(p))
			}
			rt.Fatalf("TROUBLE: %s", res.Trouble)
		}
		own, hits, other := Classify(spec.Prop, res.Violations, known)
		for _, h := range hits {
			rep.Known[h]++
		}
		for _, o := range other {
			rep.Other[o]++
		}
		if len(own) > 0 && !rep.IgnoreViolations {
			v := own[0]
			size := len(mustJSON(p))
			if rep.Failure == nil || size <= rep.Failure.size {
				rep.Failure = &Failure{Violation: v, Signature: v.Signature(), Program: mustJSON(p), Events: res.Events, size: size}
			}
			rt.Fatalf("VIOLATION %s", v.String())
		}
	})
}

// Replay executes a replay file and reports whether it reproduces.
type ReplayFile struct {
	Property  string          `json:"property"`
	Rule      string          `json:"rule"`
	Signature string          `json:"signature"`
	Detail    string          `json:"detail"`
	Seed      int64           `json:"seed"`
	World     string          `json:"world"`
	Tree      string          `json:"tree"`
	Program   json.RawMessage `json:"program"`
	Events    []string        `json:"events"`
}

func RunReplay(path string, known []KnownFinding) (reproduced bool, identical bool, msg string, err error) {
	b, err := os.ReadFile(path)
	if err != nil {
		return false, false, "", err
	}
	var rf ReplayFile
	if err := json.Unmarshal(b, &rf); err != nil {
		return false, false, "", err
	}
	spec := Registry[rf.Property+"/"+rf.World]
	if spec == nil {
		return false, false, "", fmt.Errorf("no check %s/%s", rf.Property, rf.World)
	}
	var p Program
	if err := json.Unmarshal(rf.Program, &p); err != nil {
		return false, false, "", err
	}
	res := spec.Run(&p)
	if res.Trouble != "" {
		return false, false, "", fmt.Errorf("trouble: %s", res.Trouble)
	}
	for _, v := range res.Violations {
		if v.Has(rf.Property) && v.Signature() == rf.Signature {
			reproduced = true
			msg = v.String()
			break
		}
	}
	identical = len(res.Events) == len(rf.Events)
	if identical {
		for i := range res.Events {
			if res.Events[i] != rf.Events[i] {
				identical = false
				msg += fmt.Sprintf("\nfirst differing event %d:\n  replay:   %s\n  recorded: %s", i, res.Events[i], rf.Events[i])
				break
			}
		}
	} else {
		msg += fmt.Sprintf("\nevent count %d, recorded %d", len(res.Events), len(rf.Events))
	}
	return
}

// Minimize is a delta-debugging pass over the step list (and fault list) run
// after rapid's own shrinking: drop one step at a time while a violation with
// the same signature persists. Deterministic; bounded by a wall-clock budget.
func Minimize(spec *CheckSpec, prog json.RawMessage, sig string, known []KnownFinding, budget time.Duration) (json.RawMessage, []string) {
	var p Program
	if err := json.Unmarshal(prog, &p); err != nil {
		return prog, nil
	}
	deadline := time.Now().Add(budget)
	var reduced *Program
	fails := func(q *Program) ([]string, bool) {
		res := spec.Run(q)
		if res.Trouble != "" {
			return nil, false
		}
		for _, v := range res.Violations {
			if v.Has(spec.Prop) && v.Signature() == sig {
				reduced = res.Reduced
				return res.Events, true
			}
		}
		return nil, false
	}
	events, ok := fails(&p)
	if !ok {
		return prog, nil
	}
	if reduced != nil {
		// the world proposes an explicit form of what failed (one schedule of a sweep)
		q := *reduced
		if ev, ok := fails(&q); ok {
			p, events = q, ev
		}
	}
	changed := true
	for changed && time.Now().Before(deadline) {
		changed = false
		for i := len(p.Steps) - 1; i >= 0 && time.Now().Before(deadline); i-- {
			q := p
			q.Steps = append(append([]Step(nil), p.Steps[:i]...), p.Steps[i+1:]...)
			if ev, ok := fails(&q); ok {
				p, events, changed = q, ev, true
			}
		}
		// concurrent blocks: drop calls of a task, drop the crash, cut the choice list
		for i := range p.Steps {
			if p.Steps[i].Op != "conc" {
				continue
			}
			try := func(mod func(b *Step)) {
				q := p
				q.Steps = append([]Step(nil), p.Steps...)
				b := q.Steps[i]
				b.Tasks = make([][]Step, len(p.Steps[i].Tasks))
				for k := range b.Tasks {
					b.Tasks[k] = append([]Step(nil), p.Steps[i].Tasks[k]...)
				}
				b.Sched = append([]int(nil), p.Steps[i].Sched...)
				mod(&b)
				q.Steps[i] = b
				if ev, ok := fails(&q); ok {
					p, events, changed = q, ev, true
				}
			}
			for k := range p.Steps[i].Tasks {
				for j := len(p.Steps[i].Tasks[k]) - 1; j >= 0 && time.Now().Before(deadline); j-- {
					if j >= len(p.Steps[i].Tasks[k]) {
						continue
					}
					k, j := k, j
					try(func(b *Step) { b.Tasks[k] = append(b.Tasks[k][:j:j], b.Tasks[k][j+1:]...) })
				}
			}
			if (p.Steps[i].CrashAt != nil || p.Steps[i].CrashStep != nil || p.Steps[i].CrashAfterTask != nil) && time.Now().Before(deadline) {
				try(func(b *Step) { b.CrashAt, b.CrashStep, b.CrashAfterTask = nil, nil, nil })
			}
			for n := len(p.Steps[i].Sched); n > 0 && time.Now().Before(deadline); n /= 2 {
				if n/2 < len(p.Steps[i].Sched) {
					n := n
					try(func(b *Step) { b.Sched = b.Sched[:n/2] })
				}
			}
			for j := range p.Steps[i].Sched {
				if p.Steps[i].Sched[j] != 0 && time.Now().Before(deadline) {
					j := j
					try(func(b *Step) { b.Sched[j] = 0 })
				}
			}
		}
		for i := len(p.Faults) - 1; i >= 0 && time.Now().Before(deadline); i-- {
			q := p
			q.Faults = append(append([]Fault(nil), p.Faults[:i]...), p.Faults[i+1:]...)
			if ev, ok := fails(&q); ok {
				p, events, changed = q, ev, true
			}
		}
	}
	return mustJSON(&p), events
}
