package sim

import (
	"time"

	"github.com/nuetzliches/hookaido/internal/queue"
)

// SimStore wraps a queue.Store (P1 points): Before/After run around every
// method. Before may park the calling task, or return an error that is given
// to the caller without reaching the store (injected store fault). The wrapper
// implements every optional interface the product type-asserts for, so no fast
// path is lost. MaxWait is forced to 0: with a frozen simulated clock a
// long-poll would never end; the scheduler re-polls instead.
type SimStore struct {
	Inner  queue.Store
	Before func(method string) error
	After  func(method string)

	// Optional observers (called after the inner call returned, before After).
	OnEnqueue func(envs []queue.Envelope, batch bool, n int, err error)
	OnDequeue func(req queue.DequeueRequest, resp queue.DequeueResponse, err error)
	OnLease   func(method string, ids []string, d time.Duration, reason string, res *queue.LeaseBatchResult, err error)
	OnAttempt func(a queue.DeliveryAttempt, err error)
	// OnFault: Before refused the call (injected store fault); the store never saw it.
	OnFault func(method string, ids []string, a *queue.DeliveryAttempt)
}

func (s *SimStore) pre(m string) error {
	if s.Before != nil {
		return s.Before(m)
	}
	return nil
}

func (s *SimStore) post(m string) {
	if s.After != nil {
		s.After(m)
	}
}

func (s *SimStore) Enqueue(env queue.Envelope) error {
	if err := s.pre("Enqueue"); err != nil {
		return err
	}
	err := s.Inner.Enqueue(env)
	if s.OnEnqueue != nil {
		s.OnEnqueue([]queue.Envelope{env}, false, 0, err)
	}
	s.post("Enqueue")
	return err
}

func (s *SimStore) EnqueueBatch(items []queue.Envelope) (int, error) {
	if err := s.pre("EnqueueBatch"); err != nil {
		return 0, err
	}
	n, err := s.Inner.(queue.BatchEnqueuer).EnqueueBatch(items)
	if s.OnEnqueue != nil {
		s.OnEnqueue(items, true, n, err)
	}
	s.post("EnqueueBatch")
	return n, err
}

func (s *SimStore) Dequeue(req queue.DequeueRequest) (queue.DequeueResponse, error) {
	if err := s.pre("Dequeue:" + req.Route); err != nil {
		return queue.DequeueResponse{}, err
	}
	req.MaxWait = 0
	r, err := s.Inner.Dequeue(req)
	if s.OnDequeue != nil {
		s.OnDequeue(req, r, err)
	}
	s.post("Dequeue")
	return r, err
}

func (s *SimStore) Ack(id string) error {
	if err := s.pre("Ack"); err != nil {
		if s.OnFault != nil {
			s.OnFault("Ack", []string{id}, nil)
		}
		return err
	}
	err := s.Inner.Ack(id)
	if s.OnLease != nil {
		s.OnLease("Ack", []string{id}, 0, "", nil, err)
	}
	s.post("Ack")
	return err
}

func (s *SimStore) Nack(id string, d time.Duration) error {
	if err := s.pre("Nack"); err != nil {
		if s.OnFault != nil {
			s.OnFault("Nack", []string{id}, nil)
		}
		return err
	}
	err := s.Inner.Nack(id, d)
	if s.OnLease != nil {
		s.OnLease("Nack", []string{id}, d, "", nil, err)
	}
	s.post("Nack")
	return err
}

func (s *SimStore) Extend(id string, d time.Duration) error {
	if err := s.pre("Extend"); err != nil {
		if s.OnFault != nil {
			s.OnFault("Extend", []string{id}, nil)
		}
		return err
	}
	err := s.Inner.Extend(id, d)
	if s.OnLease != nil {
		s.OnLease("Extend", []string{id}, d, "", nil, err)
	}
	s.post("Extend")
	return err
}

func (s *SimStore) MarkDead(id string, reason string) error {
	if err := s.pre("MarkDead"); err != nil {
		if s.OnFault != nil {
			s.OnFault("MarkDead", []string{id}, nil)
		}
		return err
	}
	err := s.Inner.MarkDead(id, reason)
	if s.OnLease != nil {
		s.OnLease("MarkDead", []string{id}, 0, reason, nil, err)
	}
	s.post("MarkDead")
	return err
}

func (s *SimStore) AckBatch(ids []string) (queue.LeaseBatchResult, error) {
	if err := s.pre("AckBatch"); err != nil {
		if s.OnFault != nil {
			s.OnFault("AckBatch", ids, nil)
		}
		return queue.LeaseBatchResult{}, err
	}
	r, err := s.Inner.(queue.LeaseBatchStore).AckBatch(ids)
	if s.OnLease != nil {
		s.OnLease("AckBatch", ids, 0, "", &r, err)
	}
	s.post("AckBatch")
	return r, err
}

func (s *SimStore) NackBatch(ids []string, d time.Duration) (queue.LeaseBatchResult, error) {
	if err := s.pre("NackBatch"); err != nil {
		if s.OnFault != nil {
			s.OnFault("NackBatch", ids, nil)
		}
		return queue.LeaseBatchResult{}, err
	}
	r, err := s.Inner.(queue.LeaseBatchStore).NackBatch(ids, d)
	if s.OnLease != nil {
		s.OnLease("NackBatch", ids, d, "", &r, err)
	}
	s.post("NackBatch")
	return r, err
}

func (s *SimStore) MarkDeadBatch(ids []string, reason string) (queue.LeaseBatchResult, error) {
	if err := s.pre("MarkDeadBatch"); err != nil {
		if s.OnFault != nil {
			s.OnFault("MarkDeadBatch", ids, nil)
		}
		return queue.LeaseBatchResult{}, err
	}
	r, err := s.Inner.(queue.LeaseBatchStore).MarkDeadBatch(ids, reason)
	if s.OnLease != nil {
		s.OnLease("MarkDeadBatch", ids, 0, reason, &r, err)
	}
	s.post("MarkDeadBatch")
	return r, err
}

func (s *SimStore) ListDead(req queue.DeadListRequest) (queue.DeadListResponse, error) {
	if err := s.pre("ListDead"); err != nil {
		return queue.DeadListResponse{}, err
	}
	r, err := s.Inner.ListDead(req)
	s.post("ListDead")
	return r, err
}

func (s *SimStore) RequeueDead(req queue.DeadRequeueRequest) (queue.DeadRequeueResponse, error) {
	if err := s.pre("RequeueDead"); err != nil {
		return queue.DeadRequeueResponse{}, err
	}
	r, err := s.Inner.RequeueDead(req)
	s.post("RequeueDead")
	return r, err
}

func (s *SimStore) DeleteDead(req queue.DeadDeleteRequest) (queue.DeadDeleteResponse, error) {
	if err := s.pre("DeleteDead"); err != nil {
		return queue.DeadDeleteResponse{}, err
	}
	r, err := s.Inner.DeleteDead(req)
	s.post("DeleteDead")
	return r, err
}

func (s *SimStore) ListMessages(req queue.MessageListRequest) (queue.MessageListResponse, error) {
	if err := s.pre("ListMessages"); err != nil {
		return queue.MessageListResponse{}, err
	}
	r, err := s.Inner.ListMessages(req)
	s.post("ListMessages")
	return r, err
}

func (s *SimStore) LookupMessages(req queue.MessageLookupRequest) (queue.MessageLookupResponse, error) {
	if err := s.pre("LookupMessages"); err != nil {
		return queue.MessageLookupResponse{}, err
	}
	r, err := s.Inner.LookupMessages(req)
	s.post("LookupMessages")
	return r, err
}

func (s *SimStore) CancelMessages(req queue.MessageCancelRequest) (queue.MessageCancelResponse, error) {
	if err := s.pre("CancelMessages"); err != nil {
		return queue.MessageCancelResponse{}, err
	}
	r, err := s.Inner.CancelMessages(req)
	s.post("CancelMessages")
	return r, err
}

func (s *SimStore) RequeueMessages(req queue.MessageRequeueRequest) (queue.MessageRequeueResponse, error) {
	if err := s.pre("RequeueMessages"); err != nil {
		return queue.MessageRequeueResponse{}, err
	}
	r, err := s.Inner.RequeueMessages(req)
	s.post("RequeueMessages")
	return r, err
}

func (s *SimStore) ResumeMessages(req queue.MessageResumeRequest) (queue.MessageResumeResponse, error) {
	if err := s.pre("ResumeMessages"); err != nil {
		return queue.MessageResumeResponse{}, err
	}
	r, err := s.Inner.ResumeMessages(req)
	s.post("ResumeMessages")
	return r, err
}

func (s *SimStore) CancelMessagesByFilter(req queue.MessageManageFilterRequest) (queue.MessageCancelResponse, error) {
	if err := s.pre("CancelMessagesByFilter"); err != nil {
		return queue.MessageCancelResponse{}, err
	}
	r, err := s.Inner.CancelMessagesByFilter(req)
	s.post("CancelMessagesByFilter")
	return r, err
}

func (s *SimStore) RequeueMessagesByFilter(req queue.MessageManageFilterRequest) (queue.MessageRequeueResponse, error) {
	if err := s.pre("RequeueMessagesByFilter"); err != nil {
		return queue.MessageRequeueResponse{}, err
	}
	r, err := s.Inner.RequeueMessagesByFilter(req)
	s.post("RequeueMessagesByFilter")
	return r, err
}

func (s *SimStore) ResumeMessagesByFilter(req queue.MessageManageFilterRequest) (queue.MessageResumeResponse, error) {
	if err := s.pre("ResumeMessagesByFilter"); err != nil {
		return queue.MessageResumeResponse{}, err
	}
	r, err := s.Inner.ResumeMessagesByFilter(req)
	s.post("ResumeMessagesByFilter")
	return r, err
}

func (s *SimStore) Stats() (queue.Stats, error) {
	if err := s.pre("Stats"); err != nil {
		return queue.Stats{}, err
	}
	r, err := s.Inner.Stats()
	s.post("Stats")
	return r, err
}

func (s *SimStore) RecordAttempt(a queue.DeliveryAttempt) error {
	if err := s.pre("RecordAttempt"); err != nil {
		if s.OnFault != nil {
			s.OnFault("RecordAttempt", nil, &a)
		}
		return err
	}
	err := s.Inner.RecordAttempt(a)
	if s.OnAttempt != nil {
		s.OnAttempt(a, err)
	}
	s.post("RecordAttempt")
	return err
}

func (s *SimStore) ListAttempts(req queue.AttemptListRequest) (queue.AttemptListResponse, error) {
	if err := s.pre("ListAttempts"); err != nil {
		return queue.AttemptListResponse{}, err
	}
	r, err := s.Inner.ListAttempts(req)
	s.post("ListAttempts")
	return r, err
}

func (s *SimStore) CaptureBacklogTrendSample(at time.Time) error {
	if ts, ok := s.Inner.(queue.BacklogTrendStore); ok {
		return ts.CaptureBacklogTrendSample(at)
	}
	return nil
}

func (s *SimStore) ListBacklogTrend(req queue.BacklogTrendListRequest) (queue.BacklogTrendListResponse, error) {
	if ts, ok := s.Inner.(queue.BacklogTrendStore); ok {
		return ts.ListBacklogTrend(req)
	}
	return queue.BacklogTrendListResponse{}, nil
}

func (s *SimStore) RuntimeMetrics() queue.StoreRuntimeMetrics {
	if p, ok := s.Inner.(queue.RuntimeMetricsProvider); ok {
		return p.RuntimeMetrics()
	}
	return queue.StoreRuntimeMetrics{}
}

var (
	_ queue.Store                  = (*SimStore)(nil)
	_ queue.LeaseBatchStore        = (*SimStore)(nil)
	_ queue.BatchEnqueuer          = (*SimStore)(nil)
	_ queue.BacklogTrendStore      = (*SimStore)(nil)
	_ queue.RuntimeMetricsProvider = (*SimStore)(nil)
)
