//go:debug randseednop=0
package sim

import (
	"encoding/json"
	"fmt"
	"os"
	"strconv"
	"testing"
	"time"
)

// TestCheck is the single entry point the driver (/verif/check) invokes:
//
//	VERIF_PROP=C02 VERIF_WORLD=store VERIF_REPORT=/path/report.json \
//	  hooksim.test -test.run '^TestCheck$' -rapid.checks=N -rapid.seed=S
func TestCheck(t *testing.T) {
	prop, world := os.Getenv("VERIF_PROP"), os.Getenv("VERIF_WORLD")
	if prop == "" {
		t.Skip("VERIF_PROP not set")
	}
	spec := Registry[prop+"/"+world]
	if spec == nil {
		t.Fatalf("TROUBLE: no check %s/%s", prop, world)
	}
	known, err := LoadKnownFindings(os.Getenv("VERIF_KNOWN"))
	if err != nil {
		t.Fatalf("TROUBLE: known findings: %v", err)
	}
	seed, _ := strconv.ParseInt(os.Getenv("VERIF_WORKER_SEED"), 10, 64)
	rep := NewReport(prop, world, seed)
	if path := os.Getenv("VERIF_EVENTLOG"); path != "" {
		f, err := os.Create(path)
		if err != nil {
			t.Fatalf("TROUBLE: %v", err)
		}
		defer f.Close()
		rep.EventSink = f
	}
	rep.IgnoreViolations = os.Getenv("VERIF_IGNORE_VIOLATIONS") != ""
	defer func() {
		if rep.Failure != nil {
			if mp, ev := Minimize(spec, rep.Failure.Program, rep.Failure.Signature, known, 20*time.Second); ev != nil {
				rep.Failure.Program, rep.Failure.Events = mp, ev
			}
		}
		CleanupScratch()
		if path := os.Getenv("VERIF_REPORT"); path != "" {
			if err := rep.Write(path); err != nil {
				fmt.Fprintln(os.Stderr, "TROUBLE: write report:", err)
			}
		}
	}()
	RunCheck(t, spec, rep, known)
}

// TestReplay re-executes a replay file: VERIF_REPLAY=<path>.
func TestReplay(t *testing.T) {
	path := os.Getenv("VERIF_REPLAY")
	if path == "" {
		t.Skip("VERIF_REPLAY not set")
	}
	defer CleanupScratch()
	known, _ := LoadKnownFindings(os.Getenv("VERIF_KNOWN"))
	rep, same, msg, err := RunReplay(path, known)
	if err != nil {
		t.Fatalf("TROUBLE: %v", err)
	}
	fmt.Printf("REPLAY reproduced=%v events_identical=%v\n%s\n", rep, same, msg)
	if !rep || !same {
		t.Fail()
	}
}

// TestProgram executes one program file and prints its event log and every
// violation (development aid and corpus authoring): VERIF_PROGRAM=<path>
// VERIF_PROP=Cnn VERIF_WORLD=w.
func TestProgram(t *testing.T) {
	path := os.Getenv("VERIF_PROGRAM")
	if path == "" {
		t.Skip("VERIF_PROGRAM not set")
	}
	defer CleanupScratch()
	spec := Registry[os.Getenv("VERIF_PROP")+"/"+os.Getenv("VERIF_WORLD")]
	if spec == nil {
		t.Fatalf("TROUBLE: no such check")
	}
	b, err := os.ReadFile(path)
	if err != nil {
		t.Fatalf("TROUBLE: %v", err)
	}
	var rf struct {
		Program json.RawMessage `json:"program"`
	}
	if err := json.Unmarshal(b, &rf); err == nil && len(rf.Program) > 0 {
		b = rf.Program
	}
	p := &Program{}
	if err := json.Unmarshal(b, p); err != nil {
		t.Fatalf("TROUBLE: %v", err)
	}
	res := spec.Run(p)
	for _, e := range res.Events {
		fmt.Println(e)
	}
	fmt.Printf("trouble=%q nontrivial=%v probes=%v\n", res.Trouble, spec.NonTrivial == nil || spec.NonTrivial(p, res), res.Probes)
	for _, v := range res.Violations {
		fmt.Printf("VIOL %s props=%v sig=%s\n", v.String(), v.Props, v.Signature())
	}
}

// TestList prints the registry as JSON for the driver: VERIF_LIST=1.
func TestList(t *testing.T) {
	if os.Getenv("VERIF_LIST") == "" {
		t.Skip()
	}
	type entry struct {
		Prop, World, Rule, Level string
		Quick, Thorough          int
		RealStub                 map[string]string
		Assumptions              []string
	}
	var out []entry
	for _, c := range Registry {
		lv := c.Level
		if lv == "" {
			lv = "exploration"
		}
		out = append(out, entry{c.Prop, c.World, c.Rule, lv, c.Quick, c.Thorough, c.RealStub, c.Assumptions})
	}
	b, _ := json.Marshal(out)
	fmt.Printf("REGISTRY %s\n", b)
}
