package sim

// Pull world: the real Pull API (HTTP handler, and the Worker API methods with
// gRPC metadata) and Admin listing of a node built from generated
// configuration. Serves C11 (authorisation), C04 (409 / idempotent answers),
// C05 (max_batch cap), C07 (pull fidelity), C03 (exclusivity through the API).

import (
	"bytes"
	"context"
	"encoding/base64"
	"encoding/json"
	"fmt"
	"sort"
	"strings"
	"time"

	"github.com/nuetzliches/hookaido/internal/queue"
	workerapipb "github.com/nuetzliches/hookaido/internal/workerapi/proto"
	"google.golang.org/grpc/codes"
	"google.golang.org/grpc/metadata"
	grpcstatus "google.golang.org/grpc/status"
	"google.golang.org/protobuf/types/known/durationpb"
	"pgregory.net/rapid"
)

// PullOp is one client call as data.
type PullOp struct {
	Kind      string        `json:"kind"`      // dequeue ack nack extend list
	Route     int           `json:"route"`     // index of the pull route addressed; -1: unknown endpoint
	Token     string        `json:"token"`     // ok_route ok_global other_route none basic empty prefix suffix case lower_scheme two_values admin
	Transport string        `json:"transport"` // http | worker | admin
	Batch     int           `json:"batch,omitempty"`
	TTL       time.Duration `json:"ttl,omitempty"`
	LeaseRefs []int         `json:"lease_refs,omitempty"` // most recent first; <0 literals
	Delay     time.Duration `json:"delay,omitempty"`
	Dead      bool          `json:"dead,omitempty"`
	Method    string        `json:"method,omitempty"` // HTTP method override
	Shape     string        `json:"shape,omitempty"`  // non-canonical spelling of the endpoint path: trailing double dot dotdot
}

type PullWorld struct {
	*SysWorld
	Model    *Model
	leases   []string
	recent   map[string]time.Time // lease/opkind -> time of success (idempotency window)
	tokSeq   int
	payloads map[string][]byte
}

func (w *PullWorld) add(rule, props, loc, format string, a ...any) {
	v := viol(rule, props, format, a...)
	v.Loc = loc
	w.Res.Violations = append(w.Res.Violations, v)
	w.Res.logf("  VIOLATION %s", v.String())
}

func (w *PullWorld) addAll(vs []Violation, loc string) {
	for _, v := range vs {
		if v.Loc == "" {
			v.Loc = loc
		}
		w.Res.Violations = append(w.Res.Violations, v)
		w.Res.logf("  VIOLATION %s", v.String())
	}
}

func (w *PullWorld) pullRoutes() []*RouteSpec {
	var out []*RouteSpec
	for i := range w.Spec.Routes {
		if w.Spec.Routes[i].PullPath != "" {
			out = append(out, &w.Spec.Routes[i])
		}
	}
	return out
}

func (w *PullWorld) allowlist(r *RouteSpec) []string {
	if r != nil && len(r.PullTokens) > 0 {
		return r.PullTokens
	}
	return w.Spec.PullTokens
}

// authHeader renders the token variant; returns header values and whether the
// reference says the caller is authorised (nil = the contract does not say).
func (w *PullWorld) authHeader(op *PullOp, r *RouteSpec, admin bool) (vals []string, authorised *bool) {
	yes, no := true, false
	allowed := w.allowlist(r)
	if admin {
		allowed = w.Spec.AdminTokens
		if len(allowed) == 0 {
			return nil, &yes // no admin tokens configured: open
		}
	}
	unbound := false
	if len(allowed) == 0 {
		// no route (unknown endpoint) and no global allowlist: no token list
		// applies, the contract does not say whether the caller is turned away
		// as unauthorised or because the endpoint does not exist. Any route's
		// token will do for the request.
		unbound = true
		for _, o := range w.pullRoutes() {
			allowed = append(allowed, w.allowlist(o)...)
		}
		if len(allowed) == 0 {
			allowed = []string{"no-token-configured"}
		}
	}
	defer func() {
		if unbound {
			authorised = nil
		}
	}()
	good := allowed[0]
	other := "not-a-token"
	for _, o := range w.pullRoutes() {
		for _, t := range w.allowlist(o) {
			if !contains(allowed, t) {
				other = t
			}
		}
	}
	if admin {
		other = "pull-side-token"
		if len(w.Spec.PullTokens) > 0 {
			other = w.Spec.PullTokens[0]
		}
	}
	switch op.Token {
	case "ok_route", "ok_global":
		return []string{"Bearer " + good}, &yes
	case "ok_last":
		return []string{"Bearer " + allowed[len(allowed)-1]}, &yes
	case "other_route":
		ok := contains(allowed, other)
		return []string{"Bearer " + other}, &ok
	case "none":
		return nil, &no
	case "basic":
		return []string{"Basic " + base64.StdEncoding.EncodeToString([]byte("x:"+good))}, &no
	case "empty":
		return []string{"Bearer "}, &no
	case "prefix":
		return []string{"Bearer " + good[:len(good)-1]}, &no
	case "suffix":
		return []string{"Bearer " + good + "x"}, &no
	case "case":
		return []string{"Bearer " + strings.ToUpper(good)}, &no
	case "lower_scheme":
		return []string{"bearer " + good}, nil // scheme case: not specified
	case "raw":
		return []string{good}, &no
	case "trailing_word":
		// a valid token followed by something else: the credential as a whole is not on the list
		return []string{"Bearer " + good + " junk"}, &no
	case "trailing_token":
		return []string{"Bearer " + good + " " + other}, &no
	case "trailing_scheme":
		return []string{"Bearer " + good + "\tBearer nope"}, &no
	case "leading_word":
		return []string{"Bearer junk " + good}, &no
	case "two_values":
		// several values: HTTP servers see the first; gRPC metadata sees all
		return []string{"Bearer wrong-one", "Bearer " + good}, nil
	}
	return nil, &no
}

func contains(a []string, s string) bool {
	for _, x := range a {
		if x == s {
			return true
		}
	}
	return false
}

func (w *PullWorld) leaseByRef(ref int) string {
	switch {
	case ref == -1:
		return ""
	case ref == -2:
		return "   "
	case ref <= -3 || len(w.leases) == 0:
		return fmt.Sprintf("lease_unknown%04d", -ref)
	}
	return w.leases[len(w.leases)-1-ref%len(w.leases)]
}

func (w *PullWorld) effTTL(op *PullOp) time.Duration {
	ttl := w.Spec.DefaultTTL
	if ttl <= 0 {
		ttl = 30 * time.Second
	}
	if op.TTL != 0 {
		ttl = op.TTL
	}
	if w.Spec.MaxTTL > 0 && ttl > w.Spec.MaxTTL {
		ttl = w.Spec.MaxTTL
	}
	return ttl
}

func (w *PullWorld) effBatch(op *PullOp) int {
	b := op.Batch
	if b <= 0 {
		b = 1
	}
	mb := w.Spec.MaxBatch
	if mb <= 0 {
		mb = 100
	}
	if b > mb {
		b = mb
	}
	return b
}

func (w *PullWorld) sync(desc string) {
	items, err := w.Listing()
	if err != nil {
		w.add("C02.list.error", "C02", "pull", "listing failed: %v", err)
		return
	}
	vs := w.Model.CompareListing(w.Clock.Peek(), desc, items)
	for i := range vs {
		// a refused / conflicting call that changed the queue breaks C11 / C04
		vs[i].Props = append(vs[i].Props, "C11", "C04")
	}
	w.addAll(vs, "pull/listing")
	w.Res.States = append(w.Res.States, w.Model.Hash())
}

// Enq stores a message for a pull route directly (ingress is covered elsewhere).
func (w *PullWorld) Enq(routeIdx int, payload []byte, hdr map[string]string) {
	rs := w.pullRoutes()
	if len(rs) == 0 {
		return
	}
	r := rs[routeIdx%len(rs)]
	w.Res.Ops++
	w.tokSeq++
	env := queue.Envelope{ID: fmt.Sprintf("m%03d", w.tokSeq), Route: r.Path, Target: "pull", Payload: payload, Headers: hdr}
	err := w.Node.RawStore.Enqueue(env)
	w.addAll(w.Model.Enqueue(w.Clock.Peek(), []queue.Envelope{env}, false, 0, err), "pull/enqueue")
	w.Res.logf("enq %s route=%s len=%d -> %s", env.ID, r.Path, len(payload), errShort(err))
	w.sync("enq")
}

type pullItem struct {
	ID         string            `json:"id"`
	LeaseID    string            `json:"lease_id"`
	ReceivedAt time.Time         `json:"received_at"`
	Attempt    int               `json:"attempt"`
	NextRunAt  time.Time         `json:"next_run_at"`
	Route      string            `json:"route"`
	PayloadB64 string            `json:"payload_b64"`
	Headers    map[string]string `json:"headers"`
	Trace      map[string]string `json:"trace"`
}

// Op executes one client call and checks it.
func (w *PullWorld) Op(op *PullOp) {
	w.Res.Ops++
	now := w.Clock.Peek()
	rs := w.pullRoutes()
	var r *RouteSpec
	endpoint := "/pull/unknown"
	if op.Route >= 0 && len(rs) > 0 {
		r = rs[op.Route%len(rs)]
		endpoint = r.PullPath
	}
	loc := "pull/" + op.Transport + "/" + op.Kind
	vals, authorised := w.authHeader(op, r, op.Transport == "admin")

	var ids []string
	for _, ref := range op.LeaseRefs {
		ids = append(ids, w.leaseByRef(ref))
	}

	status := 0
	var body []byte
	var items []pullItem
	grpcCode := codes.OK
	switch op.Transport {
	case "worker":
		if w.Node.Worker == nil {
			return
		}
		ctx := context.Background()
		if len(vals) > 0 {
			ctx = metadata.NewIncomingContext(ctx, metadata.MD{"authorization": vals})
		}
		var err error
		workerConflicts, workerAcked := 0, 0
		_ = workerAcked
		done := w.Sched.Go("worker", w.group, func() any {
			switch op.Kind {
			case "dequeue":
				req := &workerapipb.DequeueRequest{Endpoint: endpoint, Batch: uint32(max0(op.Batch))}
				if op.TTL != 0 {
					req.LeaseTtl = durationpb.New(op.TTL)
				}
				resp, e := w.Node.Worker.Dequeue(ctx, req)
				err = e
				if resp != nil {
					for _, it := range resp.Items {
						items = append(items, pullItem{ID: it.Id, LeaseID: it.LeaseId, ReceivedAt: it.ReceivedAt.AsTime(), Attempt: int(it.Attempt), NextRunAt: it.NextRunAt.AsTime(), Route: it.Route, PayloadB64: base64.StdEncoding.EncodeToString(it.Payload), Headers: it.Headers, Trace: it.Trace})
					}
				}
			case "ack":
				req := &workerapipb.AckRequest{Endpoint: endpoint}
				if len(ids) == 1 {
					req.LeaseId = ids[0]
				} else {
					req.LeaseIds = ids
				}
				resp, e := w.Node.Worker.Ack(ctx, req)
				err = e
				if resp != nil {
					workerConflicts = len(resp.Conflicts)
					workerAcked = int(resp.Acked)
				}
			case "nack":
				req := &workerapipb.NackRequest{Endpoint: endpoint, Delay: durationpb.New(op.Delay)}
				if op.Dead {
					req.Dead, req.Reason = true, "worker_gave_up"
				}
				if len(ids) == 1 {
					req.LeaseId = ids[0]
				} else {
					req.LeaseIds = ids
				}
				resp, e := w.Node.Worker.Nack(ctx, req)
				err = e
				if resp != nil {
					workerConflicts = len(resp.Conflicts)
				}
			case "extend":
				id := ""
				if len(ids) > 0 {
					id = ids[0]
				}
				_, err = w.Node.Worker.Extend(ctx, &workerapipb.ExtendRequest{Endpoint: endpoint, LeaseId: id, ExtendBy: durationpb.New(op.Delay)})
			default:
				err = grpcstatus.Error(codes.Unimplemented, "not driven")
			}
			return nil
		})
		if k := w.Sched.RunToEnd(done); k != "done" {
			w.Res.Trouble = "worker call: " + k
			return
		}
		grpcCode = grpcstatus.Code(err)
		switch grpcCode {
		case codes.OK:
			status = 200
			if workerConflicts > 0 {
				status = 409 // per-id conflicts are reported in the response message
			}
		case codes.Unauthenticated:
			status = 401
		case codes.NotFound:
			status = 404
		case codes.FailedPrecondition:
			status = 409
		case codes.InvalidArgument:
			status = 400
		case codes.Unimplemented:
			return
		default:
			status = 500
		}
	default:
		var reqBody map[string]any
		target := endpoint + "/" + op.Kind
		// the server serves the *cleaned* path, so these all address the same endpoint
		switch op.Shape {
		case "trailing":
			target += "/"
		case "double":
			target = endpoint + "//" + op.Kind
		case "dot":
			target = endpoint + "/./" + op.Kind
		case "dotdot":
			target = endpoint + "/x/../" + op.Kind
		case "lead":
			target = "/" + endpoint + "/" + op.Kind
		}
		if op.Shape != "" {
			w.Res.probe("pull.path_shape." + op.Shape)
		}
		h := w.Pull
		method := "POST"
		switch op.Kind {
		case "dequeue":
			reqBody = map[string]any{"batch": op.Batch}
			if op.TTL != 0 {
				reqBody["lease_ttl"] = op.TTL.String()
			}
		case "ack":
			if len(ids) == 1 {
				reqBody = map[string]any{"lease_id": ids[0]}
			} else {
				reqBody = map[string]any{"lease_ids": ids}
			}
		case "nack":
			reqBody = map[string]any{"delay": op.Delay.String()}
			if op.Dead {
				reqBody = map[string]any{"dead": true, "reason": "worker_gave_up"}
			}
			if len(ids) == 1 {
				reqBody["lease_id"] = ids[0]
			} else {
				reqBody["lease_ids"] = ids
			}
		case "extend":
			id := ""
			if len(ids) > 0 {
				id = ids[0]
			}
			reqBody = map[string]any{"lease_id": id, "extend_by": op.Delay.String()}
		case "list":
			h = w.Admin
			method = "GET"
			target = "/messages?limit=1000"
		}
		if op.Method != "" {
			method = op.Method
		}
		var b []byte
		if reqBody != nil {
			b, _ = json.Marshal(reqBody)
		}
		var hdrs []KV
		for _, v := range vals {
			hdrs = append(hdrs, KV{"Authorization", v})
		}
		hdrs = append(hdrs, KV{"Content-Type", "application/json"})
		req, err := NewRequest(method, target, "pull.internal", "10.9.9.9:5000", hdrs, b)
		if err != nil {
			return
		}
		resp := w.Do(op.Transport, h, req)
		if w.Res.Trouble != "" {
			return
		}
		status, body = resp.Status, resp.Body
		if op.Kind == "dequeue" && status == 200 {
			var dr struct {
				Items []pullItem `json:"items"`
			}
			if err := json.Unmarshal(body, &dr); err != nil {
				w.add("C07.pull.json", "C07", loc, "dequeue response is not JSON: %v", err)
			}
			items = dr.Items
		}
	}
	w.Res.logf("%s %s %s token=%s ids=%d -> %d", op.Transport, op.Kind, endpoint, op.Token, len(ids), status)

	defer w.sync(op.Transport + " " + op.Kind)

	// ---- C11: authorisation first ----
	if op.Method != "" && op.Method != "POST" && op.Transport == "http" {
		if status == 200 || status == 204 {
			w.add("C11.method", "C11", loc, "%s request was served (%d)", op.Method, status)
		}
		return
	}
	if authorised != nil && !*authorised {
		w.Res.probe("auth.denied." + op.Token)
		if status != 401 {
			w.add("C11.unauthorised.served", "C11", loc+"/"+op.Token, "caller with token variant %q on %s got %d, reference says 401", op.Token, endpoint, status)
			if len(items) > 0 {
				w.adopt(items, op, r, now)
			}
		}
		return
	}
	if authorised == nil {
		w.Res.probe("auth.unspecified." + op.Token)
		if status == 401 {
			return
		}
	} else {
		w.Res.probe("auth.ok")
		if status == 401 {
			w.add("C11.authorised.rejected", "C11", loc+"/"+op.Token, "caller with a valid token (%s) on %s got 401", op.Token, endpoint)
			return
		}
	}
	if op.Transport == "admin" || op.Kind == "list" {
		return
	}
	if r == nil {
		// 400: the request was turned away as malformed before the endpoint was
		// looked up (the order of the two checks is not specified); nothing is served
		if status != 404 && status != 400 {
			w.add("C11.unknown.endpoint", "C11,C10", loc, "unknown pull endpoint answered %d", status)
		}
		return
	}

	// ---- authorised call: contract of the operation ----
	switch op.Kind {
	case "dequeue":
		if op.TTL < 0 && status == 400 {
			return
		}
		req := queue.DequeueRequest{Route: r.Path, Target: "pull", Batch: w.effBatch(op), LeaseTTL: w.effTTL(op)}
		var resp queue.DequeueResponse
		for _, it := range items {
			payload, err := base64.StdEncoding.DecodeString(it.PayloadB64)
			if err != nil {
				w.add("C07.pull.b64", "C07", loc, "payload_b64 of %s does not decode: %v", it.ID, err)
			}
			resp.Items = append(resp.Items, queue.Envelope{ID: it.ID, LeaseID: it.LeaseID, ReceivedAt: it.ReceivedAt, Attempt: it.Attempt, NextRunAt: it.NextRunAt, LeaseUntil: it.NextRunAt, Route: it.Route, Target: "pull", State: queue.StateLeased, Payload: payload, Headers: it.Headers, Trace: it.Trace})
			w.leases = append(w.leases, it.LeaseID)
		}
		if status != 200 {
			w.add("C05.pull.dequeue.status", "C05,C11", loc, "authorised dequeue answered %d: %s", status, trunc(body))
			return
		}
		if len(items) > 0 {
			w.Res.probe("pull.dequeue.nonempty")
		}
		if op.Batch > w.effBatch(op) && len(items) == w.effBatch(op) {
			w.Res.probe("pull.dequeue.capped_by_max_batch")
		}
		w.addAll(w.Model.Dequeue(now, req, resp, nil), loc)
	case "ack", "nack":
		key := "ack"
		lop := opAck
		if op.Kind == "nack" {
			key = "nack"
			lop = opNack
			if op.Dead {
				lop = opDead
			}
		}
		if op.Delay < 0 && status == 400 {
			return
		}
		// what the contract says, per id
		uniq := uniqueIDs(ids)
		if len(uniq) == 0 {
			if status != 400 {
				w.add("C04.pull.blank", "C04", loc, "lease call without any lease id answered %d", status)
			}
			return
		}
		limit := 100
		if op.Transport == "worker" && w.Spec.MaxBatch > 0 {
			limit = w.Spec.MaxBatch
		}
		if len(uniq) > limit && !(len(ids) == 1) {
			if status != 400 {
				w.add("C04.pull.batchlimit", "C04", loc, "lease batch of %d ids (limit %d) answered %d", len(uniq), limit, status)
			}
			return
		}
		wantConflicts, succeeded, idem := 0, 0, 0
		for _, id := range uniq {
			if t, ok := w.recent[id+"/"+key]; ok && now.Sub(t) < 2*time.Minute {
				idem++
				succeeded++
				continue
			}
			reason := ""
			if op.Dead {
				reason = "worker_gave_up"
			}
			switch w.Model.applyLease(now, lop, id, op.Delay, reason) {
			case "ok":
				succeeded++
				w.recent[id+"/"+key] = now
			default:
				wantConflicts++
			}
		}
		if idem > 0 {
			w.Res.probe("pull.idempotent_answer")
		}
		single := len(ids) == 1 && strings.TrimSpace(ids[0]) != "" || (op.Transport == "http" && len(ids) == 1)
		wantStatus := 204
		if !single {
			wantStatus = 200
		}
		if wantConflicts > 0 {
			wantStatus = 409
			w.Res.probe("pull.conflict")
		}
		if op.Transport == "worker" && wantStatus == 204 {
			wantStatus = 200
		}
		if status != wantStatus {
			w.add("C04.pull.status", "C04", loc, "%s of %d lease(s) answered %d, contract says %d (%d conflict(s), %d idempotent)", op.Kind, len(uniq), status, wantStatus, wantConflicts, idem)
		}
	case "extend":
		if len(ids) == 0 || ids[0] == "" || op.Delay.String() == "" {
			return
		}
		if strings.TrimSpace(ids[0]) == "" {
			if status != 400 {
				w.add("C04.pull.blank", "C04", loc, "extend with a blank lease id answered %d", status)
			}
			return
		}
		cls := w.Model.applyLease(now, opExtend, strings.TrimSpace(ids[0]), op.Delay, "")
		want := 204
		if op.Transport == "worker" {
			want = 200 // gRPC OK
		}
		if cls != "ok" {
			want = 409
		}
		if status != want {
			w.add("C04.pull.status", "C04", loc, "extend answered %d, contract says %d (%s)", status, want, cls)
		}
	}
}

// adopt: after a dequeue the reference forbids, keep the model in step.
func (w *PullWorld) adopt(items []pullItem, op *PullOp, r *RouteSpec, now time.Time) {
	if r == nil {
		return
	}
	var resp queue.DequeueResponse
	for _, it := range items {
		resp.Items = append(resp.Items, queue.Envelope{ID: it.ID, LeaseID: it.LeaseID, Attempt: it.Attempt, NextRunAt: it.NextRunAt, LeaseUntil: it.NextRunAt, Route: it.Route, Target: "pull", State: queue.StateLeased})
	}
	w.Model.Dequeue(now, queue.DequeueRequest{Route: r.Path, Target: "pull", Batch: w.effBatch(op), LeaseTTL: w.effTTL(op)}, resp, nil)
}

type pullSys struct {
	Spec *SysSpec `json:"spec"`
	Ops  []PullOp `json:"ops"`
}

func RunPullProgram(p *Program) *Result {
	var sys pullSys
	if err := json.Unmarshal(p.Sys, &sys); err != nil || sys.Spec == nil {
		return &Result{Trouble: "bad sys spec"}
	}
	spec := *sys.Spec
	sw, err := NewSysWorld(&spec, p.Offset, SysOptions{Seed: 1})
	if open := openPullRoute(&spec); open != "" {
		// C11: a configuration that would leave a pull route without any token
		// must be refused; it never runs
		res := &Result{}
		res.Ops++
		res.logf("configuration leaves pull route %s without any token (no global pull_api token, none of its own)", open)
		if err != nil {
			res.logf("refused: %s", firstLine(err.Error()))
			res.probe("config.refused.open_pull_route")
			return res
		}
		sw.Close()
		v := viol("C11.compile.open_route", "C11", "a configuration was accepted although pull route %s has an empty effective token allowlist (its endpoint then serves callers without a token)", open)
		v.Loc = "pull/compile"
		res.Violations = append(res.Violations, v)
		res.logf("  VIOLATION %s", v.String())
		return res
	}
	if err != nil {
		return &Result{Trouble: "node: " + err.Error() + "\n" + spec.Render()}
	}
	w := &PullWorld{SysWorld: sw, recent: map[string]time.Time{}}
	w.Model = NewModel(sysQConfig(&spec))
	defer w.Close()
	start := w.Clock.Peek()
	w.Res.logf("pull world backend=%s routes=%d", spec.Backend, len(spec.Routes))
	for _, s := range p.Steps {
		switch s.Op {
		case "enq":
			var hdr map[string]string
			if s.Pad {
				hdr = map[string]string{"X-A": "1", "X-B": "two,three"}
			}
			for k, v := range s.Env.Headers {
				if hdr == nil {
					hdr = map[string]string{}
				}
				hdr[k] = v
			}
			w.Enq(s.Batch, s.Env.Payload, decodeOddHeaders(hdr))
		case "pull":
			if s.Batch >= 0 && s.Batch < len(sys.Ops) {
				op := sys.Ops[s.Batch]
				w.Op(&op)
			}
		case "advance":
			w.Clock.Advance(s.D)
			w.Res.Ops++
			w.Res.logf("advance %s", s.D)
		case "pullrace":
			w.RaceStep(s)
		case "faultretry":
			w.FaultRetry(s)
		case "reload":
			w.Res.Ops++
			if err := writeFile(w.cfgPath, []byte(s.NewSpec.Render())); err != nil {
				w.Res.Trouble = err.Error()
				break
			}
			t := w.Sched.Go("reload", w.group, func() any { return w.Node.Reload("verif") })
			if k := w.Sched.RunToEnd(t); k != "done" {
				w.Res.Trouble = "reload: " + k
				break
			}
			ok := t.Result.(bool)
			w.Res.logf("reload -> ok=%v", ok)
			if open := openPullRoute(s.NewSpec); open != "" {
				if ok {
					w.add("C11.compile.open_route", "C11", "pull/reload", "a reload was accepted although it leaves pull route %s with an empty effective token allowlist", open)
				} else {
					w.Res.probe("reload.refused.open_pull_route")
				}
			}
			if ok {
				w.Spec = s.NewSpec
				w.Res.probe("reload.ok")
			} else {
				_ = writeFile(w.cfgPath, []byte(w.Spec.Render()))
				w.Res.probe("reload.refused")
			}
		default:
			w.Res.Trouble = "pull world: unknown op " + s.Op
		}
		if w.Res.Trouble != "" {
			break
		}
	}
	w.Res.SimTime = int64(w.Clock.Peek().Sub(start))
	return w.Res
}

// ---- generator ---------------------------------------------------------------

var pullTokenVariants = []string{"ok_route", "ok_route", "ok_route", "ok_last", "other_route", "none", "basic", "empty", "prefix", "suffix", "case", "lower_scheme", "raw", "two_values", "trailing_word", "trailing_token", "trailing_scheme", "leading_word"}

// FaultRetry: a single-lease ack / nack / dead-letter whose store call fails once (a transient store error:
// locked database, I/O error), and the consumer's retry of the same request. The failed attempt must not be
// answered as a success and changes nothing; the retry is judged like any call - if the lease is still the
// message's current, unexpired lease it settles the message now (C04, C05: a nack that was acknowledged puts the
// message back with its delay; nothing stays hidden behind an answer that was never true).
func (w *PullWorld) FaultRetry(s Step) {
	prs := w.pullRoutes()
	if len(prs) == 0 || len(w.leases) == 0 {
		return
	}
	ref := s.Batch
	if ref < 0 {
		ref = -ref
	}
	id := w.leases[len(w.leases)-1-ref%len(w.leases)]
	r := prs[0]
	if x := w.Model.findLease(id); x != nil {
		for _, c := range prs {
			if c.Path == x.Route {
				r = c
			}
		}
	}
	toks := w.allowlist(r)
	hdrs := []KV{{"Authorization", "Bearer " + toks[0]}, {"Content-Type", "application/json"}}
	body := map[string]any{"lease_id": id}
	kind, op, key, method, delay, reason := "ack", opAck, "ack", "Ack", time.Duration(0), ""
	switch s.Reason {
	case "nack":
		kind, op, key, method, delay = "nack", opNack, "nack", "Nack", 5*time.Second
		body["delay"] = "5s"
	case "dead":
		kind, op, key, method, reason = "nack", opDead, "nack", "MarkDead", "worker_gave_up"
		body["dead"], body["reason"] = true, reason
	}
	b, _ := json.Marshal(body)
	loc := "pull/faultretry/" + s.Reason
	now := w.Clock.Peek()
	w.Res.Ops++
	send := func() int {
		req, _ := NewRequest("POST", r.PullPath+"/"+kind, "pull.internal", "10.9.9.9:5", hdrs, b)
		return w.Do("pull", w.Pull, req).Status
	}
	w.storeFaults[method] = 1
	st1 := send()
	if w.Res.Trouble != "" {
		return
	}
	consumed := w.storeFaults[method] == 0
	delete(w.storeFaults, method)
	w.Res.logf("pull faultretry %s first -> %d (store call failed: %v)", s.Reason, st1, consumed)
	if !consumed {
		// answered without asking the store (blank, unknown, or the idempotent duplicate): an ordinary call,
		// left to the ordinary steps
		return
	}
	w.Res.probe("pull.faultretry.fired")
	if st1 >= 200 && st1 < 300 {
		w.add("C05.pull.fault.acknowledged", "C05,C04,C01", loc, "%s whose store call failed was answered %d", s.Reason, st1)
	}
	if items, err := w.Listing(); err == nil {
		w.addAll(w.Model.CompareListing(now, "pull "+s.Reason+" with a failed store call", items), loc)
	}
	st2 := send()
	if w.Res.Trouble != "" {
		return
	}
	idem := false
	if t, ok := w.recent[id+"/"+key]; ok && now.Sub(t) < 2*time.Minute {
		idem = true
	}
	cls := "idempotent"
	if !idem {
		cls = w.Model.applyLease(now, op, id, delay, reason)
	}
	w.Res.logf("pull faultretry %s retry -> %d (%s)", s.Reason, st2, cls)
	switch {
	case idem:
	case cls == "ok":
		w.recent[id+"/"+key] = now
		if st2 != 204 && st2 != 200 {
			w.add("C04.pull.status", "C04,C05", loc, "retry of a %s of a current, unexpired lease after a failed store call answered %d", s.Reason, st2)
		}
	default:
		if st2 >= 200 && st2 < 300 {
			w.add("C04.pull.stale_success", "C04", loc, "retry of a %s of a lease that is %s answered %d", s.Reason, cls, st2)
		}
	}
	if items, err := w.Listing(); err == nil {
		w.addAll(w.Model.CompareListing(now, "pull "+s.Reason+" retried after a failed store call", items), loc)
	}
}

// RaceStep: the same single-lease ack or nack is sent two or three times at
// once over HTTP - a consumer that retries while its first attempt is still in
// flight, or two consumers holding the same (possibly stale) lease id. Every
// statement of the Pull API handlers and both sides of the store calls are
// scheduling points; the choice list decides who proceeds. What holds in every
// interleaving: a lease that is not the message's current, unexpired lease and
// whose operation has not succeeded on this node within the idempotency window
// settles nothing and every answer is 409; a current lease is settled once and
// at least one answer is 204, the others being the idempotent 204 or 409.
func (w *PullWorld) RaceStep(s Step) {
	prs := w.pullRoutes()
	if len(prs) == 0 || len(w.leases) == 0 {
		return
	}
	kind := s.Reason
	ref := s.Batch
	if ref < 0 {
		ref = -ref
	}
	id := w.leases[len(w.leases)-1-ref%len(w.leases)]
	r := prs[0]
	if x := w.Model.findLease(id); x != nil {
		for _, c := range prs {
			if c.Path == x.Route {
				r = c
			}
		}
	}
	now := w.Clock.Peek()
	toks := w.allowlist(r)
	hdrs := []KV{{"Authorization", "Bearer " + toks[0]}, {"Content-Type", "application/json"}}
	body := map[string]any{"lease_id": id}
	op, key := opAck, "ack"
	if kind == "nack" {
		body["delay"] = "5s"
		op, key = opNack, "nack"
	}
	b, _ := json.Marshal(body)
	n := 2
	if s.Pad {
		n = 3
	}
	w.Res.Ops++
	var tasks []*Task
	for i := 0; i < n; i++ {
		req, _ := NewRequest("POST", r.PullPath+"/"+kind, "pull.internal", "10.9.9.9:5", hdrs, b)
		tasks = append(tasks, w.Start("pullrace", w.Pull, req))
	}
	methods := []string{"Ack", "Nack", "MarkDead"}
	for _, m := range methods {
		w.armedStore[m], w.armedStore[m+".after"] = true, true
	}
	w.Sched.SetArmed(func(l string) bool { return strings.HasPrefix(l, "pullapi.Server.") || strings.HasPrefix(l, "store.") })
	w.Sched.DetectBlocked = true
	k := w.Sched.InterleaveBlocking(tasks, s.Sched)
	w.Sched.SetArmed(nil)
	w.Sched.DetectBlocked = false
	for _, m := range methods {
		delete(w.armedStore, m)
		delete(w.armedStore, m+".after")
	}
	if k != "done" {
		if k == "deadlock" {
			w.add("pullrace.deadlock", "C04,C05", "pull/race", "concurrent %s requests for one lease are stuck waiting for one another", kind)
			return
		}
		w.Res.Trouble = "pullrace: " + k + " " + w.Sched.Trouble
		return
	}
	var sts []string
	n204, n409, other := 0, 0, 0
	for _, t := range tasks {
		resp := w.finish(t, "done")
		sts = append(sts, fmt.Sprint(resp.Status))
		switch resp.Status {
		case 204:
			n204++
		case 409:
			n409++
		default:
			other++
		}
	}
	if w.Sched.Switches > 1 {
		w.Res.probe("pullrace.interleaved")
	}
	idem := false
	if t, ok := w.recent[id+"/"+key]; ok && now.Sub(t) < 2*time.Minute {
		idem = true
	}
	cls := "idempotent"
	if !idem {
		cls = w.Model.applyLease(now, op, id, 5*time.Second, "")
	}
	w.Res.logf("pull race: %d x %s of one lease (%s) -> %s", n, kind, cls, strings.Join(sts, " "))
	loc := "pull/race/" + kind
	switch {
	case other > 0:
		w.add("C04.pull.status", "C04", loc, "concurrent %s of one lease answered %s", kind, strings.Join(sts, " "))
	case idem:
		w.Res.probe("pullrace.idempotent")
		if n409 > 0 {
			w.add("C04.pull.status", "C04", loc, "%s of a lease whose %s succeeded on this node within the idempotency window answered %s, contract says 204 for each", kind, key, strings.Join(sts, " "))
		}
	case cls == "ok":
		w.Res.probe("pullrace.current_lease")
		w.recent[id+"/"+key] = now
		if n204 == 0 {
			w.add("C04.pull.status", "C04", loc, "concurrent %s of a current, unexpired lease answered %s: nobody was told it succeeded", kind, strings.Join(sts, " "))
		}
	default:
		// stale (expired, superseded, voided, unknown): nothing succeeded, nothing may be reported as success
		w.Res.probe("pullrace.stale_lease")
		if n204 > 0 {
			w.add("C04.pull.stale_success", "C04", loc, "concurrent %s of a lease that is %s (nothing succeeded, now or earlier) answered %s: a stale call was told it succeeded", kind, cls, strings.Join(sts, " "))
		}
	}
	items, err := w.Listing()
	if err == nil {
		w.addAll(w.Model.CompareListing(now, "pull race", items), loc)
	}
}

// openPullRoute names a pull route that has neither tokens of its own nor a
// global pull_api allowlist to fall back on ("" if there is none).
func openPullRoute(spec *SysSpec) string {
	for i := range spec.Routes {
		r := &spec.Routes[i]
		if r.PullPath != "" && len(r.PullTokens) == 0 && len(spec.PullTokens) == 0 {
			return r.Path
		}
	}
	return ""
}

func firstLine(s string) string {
	if i := strings.IndexByte(s, '\n'); i >= 0 {
		return s[:i]
	}
	return s
}

func GenPullProgram(t *rapid.T, authHeavy bool) *Program {
	p := &Program{World: "pull"}
	spec := &SysSpec{Backend: rapid.SampledFrom([]string{"memory", "sqlite"}).Draw(t, "backend")}
	spec.PullTokens = []string{"global-tok-A"}
	if rapid.Bool().Draw(t, "two_global") {
		spec.PullTokens = append(spec.PullTokens, "global-tok-B")
	}
	if rapid.IntRange(0, 2).Draw(t, "admin_tokens") != 0 {
		spec.AdminTokens = []string{"admin-tok-1"}
	}
	n := rapid.IntRange(1, 3).Draw(t, "routes")
	for i := 0; i < n; i++ {
		r := RouteSpec{Path: fmt.Sprintf("/in%d", i), PullPath: fmt.Sprintf("/pull/q%d", i)}
		if rapid.IntRange(0, 2).Draw(t, "own_tokens") == 0 {
			r.PullTokens = []string{fmt.Sprintf("route%d-tok", i)}
			if rapid.Bool().Draw(t, "own2") {
				r.PullTokens = append(r.PullTokens, fmt.Sprintf("route%d-tok-two", i))
			}
		}
		if rapid.IntRange(0, 4).Draw(t, "internal") == 0 {
			r.Channel = "internal"
		}
		spec.Routes = append(spec.Routes, r)
	}
	if rapid.IntRange(0, 9).Draw(t, "no_global?") == 0 {
		// no global allowlist: every pull route needs tokens of its own, else the
		// configuration has to be refused
		spec.PullTokens = nil
		for i := range spec.Routes {
			if len(spec.Routes[i].PullTokens) == 0 && rapid.IntRange(0, 3).Draw(t, "still_none") != 0 {
				spec.Routes[i].PullTokens = []string{fmt.Sprintf("route%d-tok", i)}
			}
		}
	}
	if rapid.IntRange(0, 2).Draw(t, "max_batch?") == 0 {
		spec.MaxBatch = rapid.IntRange(1, 3).Draw(t, "max_batch")
	}
	if rapid.IntRange(0, 2).Draw(t, "ttl?") == 0 {
		spec.DefaultTTL = rapid.SampledFrom([]time.Duration{time.Second, 10 * time.Second}).Draw(t, "default_ttl")
		if rapid.Bool().Draw(t, "max_ttl?") {
			spec.MaxTTL = rapid.SampledFrom([]time.Duration{5 * time.Second, time.Minute}).Draw(t, "max_ttl")
			if spec.MaxTTL < spec.DefaultTTL {
				spec.MaxTTL = spec.DefaultTTL
			}
		}
	}
	if rapid.IntRange(0, 3).Draw(t, "delivered?") == 0 {
		spec.Delivered = time.Hour
	}
	sys := pullSys{Spec: spec}
	steps := rapid.IntRange(3, 30).Draw(t, "nsteps")
	weirdPayloads := [][]byte{nil, {0}, {0xff, 0xfe, 0x00, '\r', '\n'}, []byte("plain"), bytes.Repeat([]byte{0x80}, 300), []byte("{\"json\":true}")}
	cur := spec
	for i := 0; i < steps; i++ {
		k := rapid.IntRange(0, 19).Draw(t, "kind")
		switch {
		case k < 5:
			p.Steps = append(p.Steps, Step{Op: "enq", Batch: rapid.IntRange(0, 2).Draw(t, "route"), Pad: rapid.Bool().Draw(t, "hdr"),
				Env: &EnvSpec{Payload: rapid.SampledFrom(weirdPayloads).Draw(t, "payload")}})
			if rapid.IntRange(0, 2).Draw(t, "oddhdr") == 0 {
				p.Steps[len(p.Steps)-1].Env.Headers = map[string]string{"X-Odd": rapid.SampledFrom(oddHeaderValues[:oddHeaderValuesUTF8]).Draw(t, "oddval")}
			}
		case k < 16:
			op := PullOp{Transport: "http", Route: rapid.IntRange(0, 2).Draw(t, "route")}
			if rapid.IntRange(0, 9).Draw(t, "unknown_ep") == 0 {
				op.Route = -1
			}
			if authHeavy || rapid.IntRange(0, 4).Draw(t, "token?") == 0 {
				op.Token = rapid.SampledFrom(pullTokenVariants).Draw(t, "token")
			} else {
				op.Token = "ok_route"
			}
			switch tr := rapid.IntRange(0, 9).Draw(t, "transport"); {
			case tr < 2:
				op.Transport = "worker"
			case tr == 2:
				op.Transport = "admin"
			}
			switch op.Transport {
			case "admin":
				op.Kind = "list"
				op.Token = rapid.SampledFrom([]string{"ok_route", "none", "other_route", "prefix", "case", "basic"}).Draw(t, "admintoken")
			case "worker":
				op.Kind = rapid.SampledFrom([]string{"dequeue", "dequeue", "dequeue", "ack", "ack", "nack", "nack", "extend"}).Draw(t, "wkind")
			default:
				op.Kind = rapid.SampledFrom([]string{"dequeue", "dequeue", "dequeue", "ack", "ack", "nack", "nack", "extend"}).Draw(t, "kind")
				if rapid.IntRange(0, 4).Draw(t, "shape?") == 0 {
					op.Shape = rapid.SampledFrom([]string{"trailing", "double", "dot", "dotdot", "lead"}).Draw(t, "shape")
				}
				if rapid.IntRange(0, 14).Draw(t, "method") == 0 {
					op.Method = rapid.SampledFrom([]string{"GET", "PUT", "DELETE"}).Draw(t, "m")
				}
			}
			op.Batch = rapid.SampledFrom([]int{0, 1, 1, 2, 5, 101}).Draw(t, "batch")
			if rapid.IntRange(0, 2).Draw(t, "ttl") == 0 {
				op.TTL = rapid.SampledFrom([]time.Duration{time.Second, 5 * time.Second, time.Minute, 10 * time.Minute}).Draw(t, "ttlv")
			}
			nl := 1
			if rapid.IntRange(0, 3).Draw(t, "multi") == 0 {
				nl = rapid.IntRange(2, 4).Draw(t, "nl")
			}
			for j := 0; j < nl; j++ {
				switch rapid.IntRange(0, 9).Draw(t, "lref") {
				case 0:
					op.LeaseRefs = append(op.LeaseRefs, -3)
				case 1:
					op.LeaseRefs = append(op.LeaseRefs, -1)
				default:
					op.LeaseRefs = append(op.LeaseRefs, rapid.IntRange(0, 5).Draw(t, "lr"))
				}
			}
			op.Delay = rapid.SampledFrom([]time.Duration{0, time.Second, 30 * time.Second}).Draw(t, "delay")
			op.Dead = op.Kind == "nack" && rapid.IntRange(0, 3).Draw(t, "dead") == 0
			sys.Ops = append(sys.Ops, op)
			p.Steps = append(p.Steps, Step{Op: "pull", Batch: len(sys.Ops) - 1})
		case k == 16 && rapid.IntRange(0, 1).Draw(t, "race?") == 0:
			// two or three copies of one ack / nack in flight at once, of a recent or an older (stale) lease
			if rapid.IntRange(0, 2).Draw(t, "faultretry?") == 0 {
				p.Steps = append(p.Steps, Step{Op: "faultretry", Reason: rapid.SampledFrom([]string{"ack", "nack", "nack", "dead"}).Draw(t, "fr.kind"), Batch: rapid.SampledFrom([]int{0, 0, 0, 1, 2}).Draw(t, "fr.ref")})
				continue
			}
			st := Step{Op: "pullrace", Reason: rapid.SampledFrom([]string{"ack", "ack", "nack"}).Draw(t, "pr.kind"), Batch: rapid.SampledFrom([]int{0, 0, 1, 2, 3}).Draw(t, "pr.ref"), Pad: rapid.IntRange(0, 3).Draw(t, "pr.three") == 3}
			type seg struct{ who, n int }
			segs := rapid.SliceOfN(rapid.Custom(func(t *rapid.T) seg {
				return seg{rapid.IntRange(0, 2).Draw(t, "who"), rapid.SampledFrom([]int{1, 2, 3, 5, 8, 13, 21, 34}).Draw(t, "len")}
			}), 0, 8).Draw(t, "pr.sched")
			for _, sg := range segs {
				for i := 0; i < sg.n && len(st.Sched) < 200; i++ {
					st.Sched = append(st.Sched, sg.who)
				}
			}
			p.Steps = append(p.Steps, st)
		case k == 17 && rapid.IntRange(0, 1).Draw(t, "heartbeat?") == 0:
			// a consumer that keeps its lease alive: dequeue, then extend again and
			// again before the current deadline; another consumer polls just before
			// the deadline all the extensions add up to; the holder acks at the end
			ri := rapid.IntRange(0, 2).Draw(t, "hb.route")
			ttl := rapid.SampledFrom([]time.Duration{10 * time.Second, 30 * time.Second, time.Minute}).Draw(t, "hb.ttl")
			tr := rapid.SampledFrom([]string{"http", "http", "worker"}).Draw(t, "hb.transport")
			add := func(op PullOp) {
				sys.Ops = append(sys.Ops, op)
				p.Steps = append(p.Steps, Step{Op: "pull", Batch: len(sys.Ops) - 1})
			}
			p.Steps = append(p.Steps, Step{Op: "enq", Batch: ri, Env: &EnvSpec{Payload: []byte("hb")}})
			add(PullOp{Kind: "dequeue", Route: ri, Token: "ok_route", Transport: tr, Batch: 1, TTL: ttl})
			for i := rapid.IntRange(2, 3).Draw(t, "hb.beats"); i > 0; i-- {
				p.Steps = append(p.Steps, Step{Op: "advance", D: ttl * 2 / 3})
				add(PullOp{Kind: "extend", Route: ri, Token: "ok_route", Transport: tr, LeaseRefs: []int{0}, Delay: ttl * 2 / 3})
			}
			p.Steps = append(p.Steps, Step{Op: "advance", D: ttl*2/3 - time.Second})
			add(PullOp{Kind: "dequeue", Route: ri, Token: "ok_route", Transport: "http", Batch: 1, TTL: ttl})
			add(PullOp{Kind: "ack", Route: ri, Token: "ok_route", Transport: tr, LeaseRefs: []int{rapid.IntRange(0, 1).Draw(t, "hb.ackref")}})
		case k < 19:
			p.Steps = append(p.Steps, Step{Op: "advance", D: rapid.SampledFrom([]time.Duration{time.Millisecond, time.Second, 5 * time.Second, 10 * time.Second, 30 * time.Second, time.Minute, 119 * time.Second, 121 * time.Second, 10 * time.Minute}).Draw(t, "d")})
		default:
			// token rotation through reload
			b, _ := json.Marshal(cur)
			var ns SysSpec
			_ = json.Unmarshal(b, &ns)
			switch rapid.IntRange(0, 5).Draw(t, "rk") {
			case 4, 5:
				// admin tokens appear, rotate or go away by reload
				switch {
				case len(ns.AdminTokens) == 0:
					ns.AdminTokens = []string{"admin-tok-added"}
				case rapid.Bool().Draw(t, "rk.admin"):
					ns.AdminTokens = []string{"admin-tok-rotated"}
				default:
					ns.AdminTokens = nil
				}
			case 3:
				ns.PullTokens = nil // legal only if every route has tokens of its own
			case 0:
				ns.PullTokens = []string{"global-tok-rotated"}
			case 1:
				ns.Routes[0].PullTokens = []string{"route0-tok-rotated"}
			default:
				ns.Routes[0].PullTokens = nil
			}
			p.Steps = append(p.Steps, Step{Op: "reload", NewSpec: &ns})
			cur = &ns
		}
	}
	p.Sys, _ = json.Marshal(sys)
	return p
}

func init() {
	stub := map[string]string{
		"pullapi.Server (HTTP handler from the *http.Server startServers built), workerapi.Server methods, admin.Server, app.authorizePull/authorizeWorker/authorizeAdmin, loadAuth, reloadConfig, queue store": "real",
		"gRPC wire transport": "stub: workerapi.Server methods are called with a context carrying gRPC metadata; marshalling and the grpc-go server are not exercised; the three assignments that wire workerapi.Server are replicated in app/verif_export.go",
		"clock":               "simulated",
	}
	reg := func(prop string, auth bool, rule string, quick, thorough int) {
		Register(&CheckSpec{
			Prop: prop, World: "pull",
			Gen:        func(t *rapid.T) *Program { return GenPullProgram(t, auth) },
			Run:        RunPullProgram,
			NonTrivial: func(p *Program, r *Result) bool { return r.Ops >= 4 },
			Rule:       rule + "; non-trivial = >=4 steps; distinct = distinct (step-kind sequence) shapes",
			RealStub:   stub,
			Quick:      quick, Thorough: thorough,
		})
	}
	reg("C11", true, "configurations with global tokens, per-route overrides and admin tokens (or none); callers with no header, wrong scheme, empty, prefix/suffix/case variants, another route's token, several values (gRPC metadata), on every operation over HTTP, the Worker API methods and the Admin listing; token changes through reload; oracle: reference allowlist rule (route tokens replace global ones); unauthorised => 401/Unauthenticated and the listing unchanged", 6000, 120000)
	reg("C04", false, "pull API part: leases kept and presented later (after expiry, re-lease, settlement) over HTTP single and batch and over the Worker API; oracle: 204/200 iff the model says the lease is current and unexpired, else 409/FailedPrecondition, the only other success being the idempotent answer to a duplicate of an ack / nack that succeeded on this node within its TTL (simulated clock walks across the 2 min window); faultretry: the store call of a single-lease ack / nack / dead-letter fails once and the consumer retries - the failed attempt is not answered 2xx and changes nothing, the retry settles a lease that is still current", 4000, 100000)
	reg("C07", false, "pull part: payloads with NUL, 0xFF, invalid UTF-8, CRLF, empty, 300 bytes of 0x80; payload_b64 over HTTP and bytes over the Worker API must decode to the stored payload, headers equal, across redeliveries", 2500, 60000)
	reg("C05", false, "pull part: dequeue through the Pull API returns min(batch', ready) items with batch' capped by pull_api.max_batch, lease TTL = request / default capped by max_lease_ttl; a nack whose store call failed once and was retried puts the message back with its delay (faultretry)", 2500, 60000)
	reg("C03", false, "pull API part: concurrent-in-time consumers over HTTP and the Worker API; every returned item was offerable in the model, fresh lease id, attempt+1", 2500, 60000)
}

func sortStringsCopy(a []string) []string {
	out := append([]string(nil), a...)
	sort.Strings(out)
	return out
}

func max0(i int) int {
	if i < 0 {
		return 0
	}
	return i
}
