package sim

// simfs: durability model for the config file, fed by the verifos hook.
// Every verifos call is write-through (the real os call happens in a scratch
// directory); in addition the call is journalled with a durable/volatile split:
// file data is volatile until File.Sync, a directory entry (create, rename,
// remove) is volatile until the parent directory is synced. From the journal
// every post-crash image is enumerated: directory operations since the last
// directory sync reach the disk as an arbitrary prefix (ordered metadata
// journalling), and an unsynced file may surface with its old data, its new
// data, or a torn prefix of it.

import (
	"errors"
	"fmt"
	"os"
	"path/filepath"
	"sort"
	"syscall"

	"github.com/nuetzliches/hookaido/internal/verifhook/verifos"
)

type fsInode struct {
	id       int
	durable  []byte
	volatile []byte
}

type fsDirOp struct {
	kind    string // create | rename | remove
	path    string
	newPath string
	inode   *fsInode
}

type SimFS struct {
	inodes     int
	dirDurable map[string]*fsInode
	dirVol     map[string]*fsInode
	dirOps     []fsDirOp
	handles    map[string]*fsInode // by path at open time
	Calls      int                 // hook calls so far (every kind)
	CrashAt    int                 // the process dies before call #CrashAt (-1: never)
	FailAt     int                 // call #FailAt fails with FailErr (-1: never)
	FailErr    error
	FailedOp   string // kind of the call the injected error hit
	Dead       bool
	Trace      []string
	Paths      map[string]bool // every path touched (confinement)
}

var errProcessDead = errors.New("simfs: process is dead")

func NewSimFS() *SimFS {
	return &SimFS{dirDurable: map[string]*fsInode{}, dirVol: map[string]*fsInode{}, handles: map[string]*fsInode{}, CrashAt: -1, FailAt: -1, Paths: map[string]bool{}}
}

// AddExisting registers a file that is durably on disk before the run.
func (fs *SimFS) AddExisting(path string, data []byte) {
	fs.inodes++
	in := &fsInode{id: fs.inodes, durable: append([]byte(nil), data...), volatile: append([]byte(nil), data...)}
	fs.dirDurable[path] = in
	fs.dirVol[path] = in
}

func (fs *SimFS) Install() { verifos.SetHook(fs.hook) }
func UninstallSimFS()      { verifos.SetHook(nil) }

func (fs *SimFS) hook(op verifos.Op, done bool, resErr error) error {
	if !done {
		idx := fs.Calls
		fs.Calls++
		if fs.Dead {
			return errProcessDead
		}
		if idx == fs.CrashAt {
			fs.Dead = true
			fs.Trace = append(fs.Trace, fmt.Sprintf("#%d CRASH before %s %s", idx, op.Kind, filepath.Base(op.Path)))
			return errProcessDead
		}
		if idx == fs.FailAt {
			fs.FailedOp = op.Kind
			fs.Trace = append(fs.Trace, fmt.Sprintf("#%d %s %s -> injected %v", idx, op.Kind, filepath.Base(op.Path), fs.FailErr))
			return fs.FailErr
		}
		fs.Trace = append(fs.Trace, fmt.Sprintf("#%d %s %s", idx, op.Kind, filepath.Base(op.Path)))
		if op.Path != "" {
			fs.Paths[op.Path] = true
		}
		if op.NewPath != "" && op.Kind == "rename" {
			fs.Paths[op.NewPath] = true
		}
		return nil
	}
	if resErr != nil {
		return nil
	}
	switch op.Kind {
	case "createtemp":
		fs.inodes++
		in := &fsInode{id: fs.inodes}
		fs.dirVol[op.Path] = in
		fs.handles[op.Path] = in
		fs.dirOps = append(fs.dirOps, fsDirOp{kind: "create", path: op.Path, inode: in})
		fs.Paths[op.Path] = true
	case "writefile":
		in := fs.dirVol[op.Path]
		if in == nil {
			fs.inodes++
			in = &fsInode{id: fs.inodes}
			fs.dirVol[op.Path] = in
			fs.dirOps = append(fs.dirOps, fsDirOp{kind: "create", path: op.Path, inode: in})
		}
		in.volatile = append([]byte(nil), op.Data...) // truncate + write, in place
	case "openfile":
		in := fs.dirVol[op.Path]
		if in == nil && op.Flag&os.O_CREATE != 0 {
			fs.inodes++
			in = &fsInode{id: fs.inodes}
			fs.dirVol[op.Path] = in
			fs.dirOps = append(fs.dirOps, fsDirOp{kind: "create", path: op.Path, inode: in})
		}
		if in != nil {
			if op.Flag&os.O_TRUNC != 0 {
				in.volatile = nil
			}
			fs.handles[op.Path] = in
		}
	case "open":
		if in := fs.dirVol[op.Path]; in != nil {
			fs.handles[op.Path] = in
		}
	case "write":
		if in := fs.handles[op.Path]; in != nil {
			in.volatile = append(in.volatile, op.Data...)
		}
	case "sync":
		if op.IsDir {
			fs.dirDurable = map[string]*fsInode{}
			for k, v := range fs.dirVol {
				fs.dirDurable[k] = v
			}
			fs.dirOps = nil
		} else if in := fs.handles[op.Path]; in != nil {
			in.durable = append([]byte(nil), in.volatile...)
		}
	case "rename":
		if in := fs.dirVol[op.Path]; in != nil {
			fs.dirVol[op.NewPath] = in
			delete(fs.dirVol, op.Path)
			fs.dirOps = append(fs.dirOps, fsDirOp{kind: "rename", path: op.Path, newPath: op.NewPath, inode: in})
		}
	case "remove":
		if in := fs.dirVol[op.Path]; in != nil {
			delete(fs.dirVol, op.Path)
			fs.dirOps = append(fs.dirOps, fsDirOp{kind: "remove", path: op.Path, inode: in})
		}
	}
	return nil
}

// ImageState is one possible content of a path after power loss.
type ImageState struct {
	Exists  bool
	Content []byte
	How     string
}

// Images enumerates what `path` can hold after a power loss now.
func (fs *SimFS) Images(path string) []ImageState {
	var out []ImageState
	for p := 0; p <= len(fs.dirOps); p++ {
		dir := map[string]*fsInode{}
		for k, v := range fs.dirDurable {
			dir[k] = v
		}
		for _, op := range fs.dirOps[:p] {
			switch op.kind {
			case "create":
				dir[op.path] = op.inode
			case "rename":
				dir[op.newPath] = op.inode
				delete(dir, op.path)
			case "remove":
				delete(dir, op.path)
			}
		}
		in := dir[path]
		how := fmt.Sprintf("dir-ops %d/%d persisted", p, len(fs.dirOps))
		if in == nil {
			out = append(out, ImageState{Exists: false, How: how})
			continue
		}
		out = append(out, ImageState{Exists: true, Content: in.durable, How: how + ", file data as of last fsync"})
		if string(in.durable) != string(in.volatile) {
			out = append(out, ImageState{Exists: true, Content: in.volatile, How: how + ", unsynced data fully written"})
			if len(in.volatile) > 1 {
				out = append(out, ImageState{Exists: true, Content: in.volatile[:len(in.volatile)/2], How: how + ", unsynced data torn"})
			}
		}
	}
	return out
}

// KillState is what `path` holds if only the process dies (page cache survives).
func (fs *SimFS) KillState(path string) ImageState {
	in := fs.dirVol[path]
	if in == nil {
		return ImageState{Exists: false, How: "kill"}
	}
	return ImageState{Exists: true, Content: in.volatile, How: "kill"}
}

var injectableErrnos = []error{syscall.EIO, syscall.ENOSPC, syscall.EACCES}

func sortedPaths(m map[string]bool) []string {
	out := make([]string, 0, len(m))
	for k := range m {
		out = append(out, k)
	}
	sort.Strings(out)
	return out
}
