package sim

// QueueModel: the executable reference for the queue contract, written from the
// property statements (C02-C05, C12-C14) and the public docs. It is deterministic
// except where the contract leaves the implementation free (which ready messages
// a dequeue takes, when expired leases are swept, when pruning runs, which of
// several equally old messages drop_oldest evicts, generated ids); there the
// observed outcome is checked for legality and then adopted.

import (
	"encoding/json"
	"unicode/utf8"
	"bytes"
	"errors"
	"fmt"
	"hash/fnv"
	"sort"
	"strings"
	"time"

	"github.com/nuetzliches/hookaido/internal/queue"
)

type Msg struct {
	ID, Route, Target string
	State             queue.State
	ReceivedAt        time.Time
	NextRunAt         time.Time
	Attempt           int
	Payload           []byte
	Headers           map[string]string
	Trace             map[string]string
	DeadReason        string
	SchemaVersion     int
	LeaseID           string
	LeaseUntil        time.Time
	Seq               int // insertion order
	// bookkeeping for history checks
	Dequeues int
}

type QConfig struct {
	Backend          string        `json:"backend"` // memory | sqlite
	MaxDepth         int           `json:"max_depth,omitempty"`
	DropPolicy       string        `json:"drop_policy,omitempty"`
	RetentionMaxAge  time.Duration `json:"retention_max_age,omitempty"`
	PruneInterval    time.Duration `json:"prune_interval,omitempty"`
	PollInterval     time.Duration `json:"poll_interval,omitempty"` // SQLite long-poll timer (real time); W-conc sets it out of reach
	DeliveredMaxAge  time.Duration `json:"delivered_max_age,omitempty"`
	DLQMaxAge        time.Duration `json:"dlq_max_age,omitempty"`
	DLQMaxDepth      int           `json:"dlq_max_depth,omitempty"`
	MemPressureItems int           `json:"mem_pressure_items,omitempty"`
	MemPressureBytes int64         `json:"mem_pressure_bytes,omitempty"`
}

func (c QConfig) pruneConfigured() bool {
	return c.PruneInterval > 0 && (c.RetentionMaxAge > 0 || c.DeliveredMaxAge > 0 || c.DLQMaxAge > 0 || c.DLQMaxDepth > 0)
}

// SweepGrace is the delay the contract grants a backend between the instant a
// lease expires and the instant the message has to be offered again (C05).
func (c QConfig) SweepGrace() time.Duration {
	if c.Backend == "memory" {
		return 0
	}
	return 10 * time.Millisecond
}

// Violation is one broken rule. Rule ids are stable; Props lists the
// properties the rule decides.
type Violation struct {
	Rule   string   `json:"rule"`
	Props  []string `json:"props"`
	Detail string   `json:"detail"`
	Loc    string   `json:"loc,omitempty"` // normalised location (backend/op/...), part of the signature
}

func (v Violation) String() string { return v.Rule + ": " + v.Detail }

func (v Violation) Has(prop string) bool {
	for _, p := range v.Props {
		if p == prop {
			return true
		}
	}
	return false
}

func viol(rule string, props string, format string, a ...any) Violation {
	return Violation{Rule: rule, Props: strings.Split(props, ","), Detail: shorten(fmt.Sprintf(format, a...), 900)}
}

// shorten keeps long details (listings of hundreds of ids) readable: head,
// tail and a digest of the whole, so that different texts stay different.
func shorten(s string, max int) string {
	if len(s) <= max {
		return s
	}
	h := fnv.New32a()
	h.Write([]byte(s))
	return fmt.Sprintf("%s ...[%d bytes, fnv %08x]... %s", s[:max/2], len(s), h.Sum32(), s[len(s)-max/2:])
}

// nameList prints a list of names in full when short, else head, size and digest.
func nameList(names []string) string {
	if len(names) <= 16 {
		return fmt.Sprintf("%q", names)
	}
	h := fnv.New32a()
	for _, n := range names {
		h.Write([]byte(n))
		h.Write([]byte{0})
	}
	return fmt.Sprintf("%q...(n=%d fnv %08x)", names[:8], len(names), h.Sum32())
}

type Model struct {
	Cfg   QConfig
	Msgs  map[string]*Msg
	seq   int
	Lease map[string]string // every lease id ever issued -> message id
	// Gone remembers ids that were removed (acked, deleted, pruned, evicted):
	// they must never reappear unless enqueued again.
	Gone map[string]string
	// Reused: ids that were stored, removed, and stored again.
	Reused map[string]bool

	// pending freedoms for the next CompareListing
	sweepAllowed bool
	// SweepStallUntil: after a backward clock step, the instant up to which a
	// backend that throttles its lease sweep by clock time may leave an expired
	// lease in place (see storeworld "clockback")
	SweepStallUntil time.Time
	evictMin        int
	evictMax        int
	newAnon         []*Msg        // enqueued without explicit id: id to be adopted
	fresh           map[*Msg]bool // inserted by the operation being compared
	doubtDeq        *doubtDequeue

	// LiftedAboveDepth: an operator requeue/resume took the active count above
	// max_depth; the depth clauses of C12 exclude such histories until the
	// count is back at or below the limit.
	Stats ModelStats
}

type ModelStats struct {
	SweepsAdopted   int
	PrunesAdopted   int
	EvictionsSeen   int
	AmbiguousDepth  int
	LiftedUnpruned  int
	ExpiredPresents int
	StalePresents   int
	DequeueFromExp  int
}

func NewModel(cfg QConfig) *Model {
	if cfg.DropPolicy == "" {
		cfg.DropPolicy = "reject"
	}
	return &Model{Cfg: cfg, Msgs: map[string]*Msg{}, Lease: map[string]string{}, Gone: map[string]string{}, Reused: map[string]bool{}}
}

func (m *Model) sorted() []*Msg {
	out := make([]*Msg, 0, len(m.Msgs))
	for _, x := range m.Msgs {
		out = append(out, x)
	}
	sort.Slice(out, func(i, j int) bool { return out[i].Seq < out[j].Seq })
	return out
}

func (m *Model) count(states ...queue.State) int {
	n := 0
	for _, x := range m.Msgs {
		for _, s := range states {
			if x.State == s {
				n++
				break
			}
		}
	}
	return n
}

func (m *Model) Active() int { return m.count(queue.StateQueued, queue.StateLeased) }

// pruneEligible: may this message legally vanish through retention at `now`?
// (never while leased, never canceled.)
func (m *Model) pruneEligible(x *Msg, now time.Time) bool {
	if !m.Cfg.pruneConfigured() {
		return false
	}
	switch x.State {
	case queue.StateQueued:
		return m.Cfg.RetentionMaxAge > 0 && !x.ReceivedAt.After(now.Add(-m.Cfg.RetentionMaxAge))
	case queue.StateDelivered:
		return m.Cfg.DeliveredMaxAge > 0 && !x.NextRunAt.After(now.Add(-m.Cfg.DeliveredMaxAge))
	case queue.StateDead:
		if m.Cfg.DLQMaxAge > 0 && !x.ReceivedAt.After(now.Add(-m.Cfg.DLQMaxAge)) {
			return true
		}
		// depth rule is judged against the survivors in CompareListing
		return false
	}
	return false
}

// deadBeyondDepth: x is a dead letter that a retention pass may remove under
// the DLQ depth rule: at least max_depth other dead letters are as new or newer
// (among equal received_at the choice is the implementation's).
func (m *Model) deadBeyondDepth(x *Msg) bool {
	if x.State != queue.StateDead || !m.Cfg.pruneConfigured() || m.Cfg.DLQMaxDepth <= 0 {
		return false
	}
	newer := 0
	for _, o := range m.Msgs {
		if o != x && o.State == queue.StateDead && !o.ReceivedAt.Before(x.ReceivedAt) {
			newer++
		}
	}
	return newer >= m.Cfg.DLQMaxDepth
}

// pruneEligibleIfSwept: an expired lease that a dequeue releases becomes a
// queued message, which retention may then remove within the same call.
func (m *Model) pruneEligibleIfSwept(x *Msg, now time.Time) bool {
	if x.State != queue.StateLeased || x.LeaseUntil.After(now) || !m.Cfg.pruneConfigured() {
		return false
	}
	return m.Cfg.RetentionMaxAge > 0 && !x.ReceivedAt.After(now.Add(-m.Cfg.RetentionMaxAge))
}

func (m *Model) prunableQueued(now time.Time) int {
	n := 0
	for _, x := range m.Msgs {
		if x.State == queue.StateQueued && m.pruneEligible(x, now) {
			n++
		}
	}
	return n
}

func cloneMap(in map[string]string) map[string]string {
	if len(in) == 0 {
		return nil
	}
	out := make(map[string]string, len(in))
	for k, v := range in {
		out[k] = v
	}
	return out
}

func mapsEqual(a, b map[string]string) bool {
	if len(a) != len(b) {
		return false
	}
	for k, v := range a {
		if bv, ok := b[k]; !ok || bv != v {
			return false
		}
	}
	return true
}

func errClass(err error) string {
	switch {
	case err == nil:
		return "ok"
	case errors.Is(err, queue.ErrQueueFull):
		return "full"
	case errors.Is(err, queue.ErrEnvelopeExists):
		return "exists"
	case errors.Is(err, queue.ErrMemoryPressure):
		return "pressure"
	case errors.Is(err, queue.ErrLeaseNotFound):
		return "notfound"
	case errors.Is(err, queue.ErrLeaseExpired):
		return "expired"
	}
	return "other:" + err.Error()
}

func (m *Model) memPressure(excl map[*Msg]bool) bool {
	if m.Cfg.Backend != "memory" {
		return false
	}
	itemLimit := m.Cfg.MemPressureItems
	if itemLimit <= 0 && m.Cfg.MaxDepth > 0 {
		itemLimit = m.Cfg.MaxDepth
		if itemLimit < 1000 {
			itemLimit = 1000
		}
	}
	bytesLimit := m.Cfg.MemPressureBytes
	if bytesLimit <= 0 {
		bytesLimit = 256 << 20
	}
	var items int
	var size int64
	for _, x := range m.Msgs {
		if excl[x] {
			continue
		}
		switch x.State {
		case queue.StateDelivered, queue.StateDead, queue.StateCanceled:
			items++
			size += int64(len(x.ID) + len(x.Route) + len(x.Target) + len(x.Payload) + len(x.DeadReason) + len(x.LeaseID))
			for k, v := range x.Headers {
				size += int64(len(k) + len(v))
			}
			for k, v := range x.Trace {
				size += int64(len(k) + len(v))
			}
		}
	}
	if itemLimit > 0 && items >= itemLimit {
		return true
	}
	return bytesLimit > 0 && size >= bytesLimit
}

// fullPruneSet: what one complete retention pass at `now` would remove.
func (m *Model) fullPruneSet(now time.Time) map[*Msg]bool {
	out := map[*Msg]bool{}
	if !m.Cfg.pruneConfigured() {
		return out
	}
	var dead []*Msg
	for _, x := range m.Msgs {
		if m.pruneEligible(x, now) {
			out[x] = true
		} else if x.State == queue.StateDead {
			dead = append(dead, x)
		}
	}
	if m.Cfg.DLQMaxDepth > 0 && len(dead) > m.Cfg.DLQMaxDepth {
		sort.Slice(dead, func(i, j int) bool { return dead[i].ReceivedAt.Before(dead[j].ReceivedAt) })
		for _, x := range dead[:len(dead)-m.Cfg.DLQMaxDepth] {
			out[x] = true
		}
	}
	return out
}

type depthView struct {
	active, activeDelivered, queued int
	pressure                        bool
}

func (m *Model) view(excl map[*Msg]bool) depthView {
	var v depthView
	all := make([]*Msg, 0, len(m.Msgs)+len(m.newAnon))
	for _, x := range m.Msgs {
		all = append(all, x)
	}
	all = append(all, m.newAnon...) // stored, id not yet learned
	for _, x := range all {
		if excl[x] {
			continue
		}
		switch x.State {
		case queue.StateQueued:
			v.queued++
			v.active++
			v.activeDelivered++
		case queue.StateLeased:
			v.active++
			v.activeDelivered++
		case queue.StateDelivered:
			v.activeDelivered++
		}
	}
	v.pressure = m.memPressure(excl)
	return v
}

// depthNeed returns how many queued messages would have to be evicted to admit
// `incoming` new messages, for a given active count.
func (m *Model) depthNeed(active, activeDelivered, incoming int) int {
	if m.Cfg.MaxDepth <= 0 {
		return 0
	}
	need := active + incoming - m.Cfg.MaxDepth
	if m.Cfg.Backend == "memory" && m.Cfg.DeliveredMaxAge > 0 {
		if n2 := activeDelivered + incoming - m.Cfg.MaxDepth; n2 > need {
			need = n2
		}
	}
	if need < 0 {
		need = 0
	}
	return need
}

func (m *Model) newMsg(now time.Time, env queue.Envelope) *Msg {
	x := &Msg{
		ID: env.ID, Route: env.Route, Target: env.Target, State: env.State,
		ReceivedAt: env.ReceivedAt, NextRunAt: env.NextRunAt, Attempt: env.Attempt,
		Payload: append([]byte(nil), env.Payload...), Headers: cloneMap(env.Headers), Trace: cloneMap(env.Trace),
		DeadReason: env.DeadReason, SchemaVersion: env.SchemaVersion,
	}
	if x.State == "" {
		x.State = queue.StateQueued
	}
	if x.State != queue.StateDead {
		x.DeadReason = ""
	}
	if x.ReceivedAt.IsZero() {
		x.ReceivedAt = now
	}
	if x.NextRunAt.IsZero() {
		x.NextRunAt = x.ReceivedAt
	}
	if x.SchemaVersion == 0 {
		x.SchemaVersion = 1
	}
	return x
}

func (m *Model) insert(x *Msg) {
	m.seq++
	x.Seq = m.seq
	if m.fresh == nil {
		m.fresh = map[*Msg]bool{}
	}
	m.fresh[x] = true
	if x.ID == "" {
		m.newAnon = append(m.newAnon, x)
		return
	}
	m.Msgs[x.ID] = x
	if _, was := m.Gone[x.ID]; was {
		m.Reused[x.ID] = true
	}
	delete(m.Gone, x.ID)
}

// Enqueue checks the outcome of Store.Enqueue / EnqueueBatch (len(envs)>1 or
// batch=true) and applies it. C12 (admission), C02 (refusal changes nothing),
// C15 (batch all-or-nothing).
func (m *Model) Enqueue(now time.Time, envs []queue.Envelope, batch bool, n int, err error) []Violation {
	var vs []Violation
	op := "enqueue"
	if batch {
		op = "enqueue_batch"
	}
	if len(envs) == 0 {
		if err != nil || n != 0 {
			vs = append(vs, viol("C13.enqueue.empty", "C13", "empty batch returned n=%d err=%v", n, err))
		}
		return vs
	}
	// which refusals are justified?
	dup := false
	seen := map[string]bool{}
	for _, e := range envs {
		if e.ID == "" {
			continue
		}
		if seen[e.ID] {
			dup = true
		}
		seen[e.ID] = true
		if _, ok := m.Msgs[e.ID]; ok {
			dup = true
		}
	}
	// the call may or may not have run a retention pass first: judge against
	// both pictures (hi = nothing pruned, lo = one full pass)
	hi := m.view(nil)
	lo := hi
	if ps := m.fullPruneSet(now); len(ps) > 0 {
		lo = m.view(ps)
		m.Stats.AmbiguousDepth++
	}
	active, queued := hi.active, hi.queued
	// Histories in which operator requeue/resume lifted the active count above
	// max_depth are outside C12. The lift is judged per picture: the store may not
	// have pruned yet (hi), and if the count is above the limit there, what the
	// call does is not constrained, even if a retention pass (lo) would have
	// brought the count back to the limit.
	lifted := m.Cfg.MaxDepth > 0 && lo.active > m.Cfg.MaxDepth
	liftedHi := m.Cfg.MaxDepth > 0 && hi.active > m.Cfg.MaxDepth
	needHi := m.depthNeed(hi.active, hi.activeDelivered, len(envs))
	needLo := m.depthNeed(lo.active, lo.activeDelivered, len(envs))
	fullHi, fullLo := false, false
	if m.Cfg.DropPolicy == "drop_oldest" {
		fullHi = needHi > hi.queued
		fullLo = needLo > lo.queued
	} else {
		fullHi = needHi > 0
		fullLo = needLo > 0
	}
	pressure := hi.pressure && lo.pressure
	pressureAny := hi.pressure || lo.pressure

	cls := errClass(err)
	if err != nil {
		ok := false
		switch cls {
		case "full":
			ok = fullHi || fullLo || liftedHi
			if !ok {
				vs = append(vs, viol("C12.refused.notfull", "C12", "%s refused as full with active=%d max_depth=%d incoming=%d", op, active, m.Cfg.MaxDepth, len(envs)))
			}
		case "exists":
			ok = dup
			if !ok {
				vs = append(vs, viol("C12.refused.nodup", "C12,C02", "%s refused as duplicate but no id collides", op))
			}
		case "pressure":
			ok = pressureAny
			if !ok {
				vs = append(vs, viol("C12.refused.nopressure", "C12", "%s refused for memory pressure without pressure", op))
			}
		default:
			vs = append(vs, viol("C02.enqueue.error", "C02,C12", "%s failed with unexpected error %v", op, err))
		}
		if batch && n != 0 {
			vs = append(vs, viol("C15.batch.partialcount", "C15,C13", "failed batch reports n=%d", n))
		}
		// refusal: nothing may change (checked by CompareListing: no freedoms
		// except pruning, which the call may have done before refusing)
		m.evictMin, m.evictMax = 0, 0
		return vs
	}

	// success
	if batch && n != len(envs) {
		vs = append(vs, viol("C15.batch.count", "C15,C13", "batch of %d reports n=%d", len(envs), n))
	}
	if pressure {
		vs = append(vs, viol("C12.admitted.pressure", "C12", "%s accepted under memory pressure", op))
	}
	evictLo, evictHi := 0, 0
	if !lifted {
		if fullHi && fullLo {
			vs = append(vs, viol("C12.admitted.full", "C12", "%s accepted with active=%d queued=%d max_depth=%d policy=%s incoming=%d", op, active, queued, m.Cfg.MaxDepth, m.Cfg.DropPolicy, len(envs)))
		}
		if m.Cfg.DropPolicy == "drop_oldest" {
			evictLo, evictHi = needLo, needHi
			if evictLo > evictHi {
				evictLo, evictHi = evictHi, evictLo
			}
		}
	} else if m.Cfg.DropPolicy == "drop_oldest" {
		evictLo, evictHi = 0, needHi
	}
	if liftedHi && !lifted {
		// above the limit only as long as nothing was pruned: the outcome of either
		// picture is acceptable (hi: unconstrained; lo: the ordinary rule)
		vs = dropRule(vs, "C12.admitted.full")
		if m.Cfg.DropPolicy == "drop_oldest" {
			evictLo = 0
			if needHi > evictHi {
				evictHi = needHi
			}
		}
		m.Stats.LiftedUnpruned++
	}
	inBatch := map[string]bool{}
	for _, e := range envs {
		if e.ID != "" {
			if inBatch[e.ID] {
				vs = append(vs, viol("C12.admitted.duplicate", "C12,C02,C15", "%s accepted a batch that repeats id %s", op, e.ID))
				continue
			}
			inBatch[e.ID] = true
			if old, ok := m.Msgs[e.ID]; ok {
				// Legal only if the holder of the id was itself the drop_oldest
				// victim that made room (evicted first, then the id is free).
				if m.pruneEligible(old, now) || m.deadBeyondDepth(old) {
					// retention removed the holder before the insert
					delete(m.Msgs, old.ID)
					m.Gone[old.ID] = "pruned"
					m.Stats.PrunesAdopted++
				} else if old.State == queue.StateQueued && evictHi > 0 && m.amongOldestQueued(old, evictHi) {
					delete(m.Msgs, old.ID)
					m.Gone[old.ID] = "evicted"
					m.Stats.EvictionsSeen++
					evictHi--
					if evictLo > 0 {
						evictLo--
					}
				} else {
					vs = append(vs, viol("C12.admitted.duplicate", "C12,C02,C15", "%s accepted id %s although a message with that id exists (%s) and is not the oldest queued message", op, e.ID, old.State))
					// adopt what happened (the old message is gone, the new one
					// is stored) so that one defect is reported once
					delete(m.Msgs, old.ID)
					m.Gone[old.ID] = "replaced"
					if old.State == queue.StateQueued && evictHi > 0 {
						evictHi--
						if evictLo > 0 {
							evictLo--
						}
					}
				}
			}
		}
		m.insert(m.newMsg(now, e))
	}
	m.evictMin, m.evictMax = evictLo, evictHi
	return vs
}

func dropRule(vs []Violation, rule string) []Violation {
	out := vs[:0]
	for _, v := range vs {
		if v.Rule != rule {
			out = append(out, v)
		}
	}
	return out
}

// amongOldestQueued: is x one of the k oldest queued messages (by insertion
// order or by received_at), i.e. an acceptable drop_oldest victim?
func (m *Model) amongOldestQueued(x *Msg, k int) bool {
	olderSeq, olderRecv := 0, 0
	for _, y := range m.Msgs {
		if y == x || y.State != queue.StateQueued || m.fresh[y] {
			continue // messages inserted by this very call are not eviction candidates
		}
		if y.Seq < x.Seq {
			olderSeq++
		}
		if y.ReceivedAt.Before(x.ReceivedAt) {
			olderRecv++
		}
	}
	return olderSeq < k || olderRecv < k
}

type dequeueSets struct {
	may, must map[string]bool
}

func matchFilter(x *Msg, route, target string) bool {
	return (route == "" || x.Route == route) && (target == "" || x.Target == target)
}

// Dequeue checks a dequeue result. C03 (exclusivity, fresh lease, attempt+1),
// C05 (no starvation, not-before, redelivery after expiry).
func (m *Model) Dequeue(now time.Time, req queue.DequeueRequest, resp queue.DequeueResponse, err error) []Violation {
	var vs []Violation
	if err != nil {
		vs = append(vs, viol("C05.dequeue.error", "C05,C02", "dequeue failed: %v", err))
		return vs
	}
	batch := req.Batch
	if batch <= 0 {
		batch = 1
	}
	if batch > 100 {
		batch = 100
	}
	ttl := req.LeaseTTL
	if ttl <= 0 {
		ttl = 30 * time.Second
	}
	if !req.Now.IsZero() {
		now = req.Now
	}
	grace := m.Cfg.SweepGrace()
	may := map[string]bool{}
	must := map[string]bool{}
	mustIfSwept := map[string]bool{}
	for _, x := range m.Msgs {
		if !matchFilter(x, req.Route, req.Target) {
			continue
		}
		switch x.State {
		case queue.StateQueued:
			if !x.NextRunAt.After(now) {
				may[x.ID] = true
				if !m.pruneEligible(x, now) {
					must[x.ID] = true
					mustIfSwept[x.ID] = true
				}
			}
		case queue.StateLeased:
			if !x.LeaseUntil.After(now) {
				may[x.ID] = true
				if !m.pruneEligibleIfSwept(x, now) {
					mustIfSwept[x.ID] = true
					if !x.LeaseUntil.After(now.Add(-grace)) && !now.Before(m.SweepStallUntil) {
						must[x.ID] = true
					}
				}
			}
		}
	}
	seen := map[string]bool{}
	fromExpired := 0
	for _, it := range resp.Items {
		x, ok := m.Msgs[it.ID]
		if !ok {
			vs = append(vs, viol("C03.dequeue.unknown", "C03,C02", "dequeue returned unknown message %s", it.ID))
			continue
		}
		if seen[it.ID] {
			vs = append(vs, viol("C03.dequeue.twice", "C03", "message %s twice in one dequeue", it.ID))
			continue
		}
		seen[it.ID] = true
		if !may[it.ID] {
			why := "state=" + string(x.State)
			if x.State == queue.StateQueued {
				why = fmt.Sprintf("queued but next_run_at=%s > now=%s", x.NextRunAt.Format(time.RFC3339Nano), now.Format(time.RFC3339Nano))
			} else if x.State == queue.StateLeased {
				why = fmt.Sprintf("leased until %s, now=%s", x.LeaseUntil.Format(time.RFC3339Nano), now.Format(time.RFC3339Nano))
			}
			if !matchFilter(x, req.Route, req.Target) {
				why = fmt.Sprintf("route/target %s %s outside filter %q %q", x.Route, x.Target, req.Route, req.Target)
			}
			rule, props := "C03.dequeue.notready", "C03,C05"
			if x.State == queue.StateLeased {
				rule = "C03.dequeue.leased"
			} else if x.State == queue.StateQueued {
				rule, props = "C05.dequeue.early", "C05,C03"
			}
			vs = append(vs, viol(rule, props, "dequeue returned %s which is not offerable: %s", it.ID, why))
		}
		if x.State == queue.StateLeased {
			fromExpired++
			m.Stats.DequeueFromExp++
		}
		if it.LeaseID == "" {
			vs = append(vs, viol("C03.lease.blank", "C03", "dequeue of %s issued a blank lease id", it.ID))
		} else if prev, dupL := m.Lease[it.LeaseID]; dupL {
			vs = append(vs, viol("C03.lease.reused", "C03,C04", "lease id %s (message %s) issued again for %s", it.LeaseID, prev, it.ID))
		}
		if it.Attempt != x.Attempt+1 {
			vs = append(vs, viol("C03.attempt", "C03", "dequeue of %s: attempt %d, want %d", it.ID, it.Attempt, x.Attempt+1))
		}
		wantUntil := now.Add(ttl)
		if !it.LeaseUntil.Equal(wantUntil) {
			vs = append(vs, viol("C03.lease.until", "C03,C05", "dequeue of %s: lease_until %s, want now+ttl %s", it.ID, it.LeaseUntil.Format(time.RFC3339Nano), wantUntil.Format(time.RFC3339Nano)))
		}
		if it.State != queue.StateLeased {
			vs = append(vs, viol("C03.dequeue.state", "C03", "dequeued item %s has state %s", it.ID, it.State))
		}
		vs = append(vs, m.immutable("dequeue", x, it, true, true, true)...)
		// apply
		x.State = queue.StateLeased
		x.Attempt = it.Attempt
		x.LeaseID = it.LeaseID
		x.LeaseUntil = it.LeaseUntil
		x.NextRunAt = it.LeaseUntil
		x.DeadReason = ""
		x.Dequeues++
		if it.LeaseID != "" {
			m.Lease[it.LeaseID] = x.ID
		}
	}
	n := len(seen)
	lo := len(must)
	if fromExpired > 0 {
		lo = len(mustIfSwept)
	}
	if lo > batch {
		lo = batch
	}
	if n < lo {
		vs = append(vs, viol("C05.dequeue.starved", "C05", "dequeue(route=%q target=%q batch=%d) returned %d items although %d are ready (must) of %d offerable", req.Route, req.Target, batch, n, len(must), len(may)))
	}
	if len(resp.Items) > batch {
		vs = append(vs, viol("C05.dequeue.overbatch", "C05,C03", "dequeue returned %d items for batch %d", len(resp.Items), batch))
	}
	m.sweepAllowed = true
	return vs
}

// immutable compares the fields no operation may alter.
func (m *Model) immutable(op string, x *Msg, it queue.Envelope, payload, headers, trace bool) []Violation {
	var vs []Violation
	bad := func(f string, got, want any) {
		vs = append(vs, viol("C02.immutable."+f, "C02,C07", "%s: message %s %s = %v, want %v", op, x.ID, f, got, want))
	}
	if it.Route != x.Route {
		bad("route", it.Route, x.Route)
	}
	if it.Target != x.Target {
		bad("target", it.Target, x.Target)
	}
	if !it.ReceivedAt.Equal(x.ReceivedAt) {
		bad("received_at", it.ReceivedAt.UnixNano(), x.ReceivedAt.UnixNano())
	}
	if payload && !bytes.Equal(it.Payload, x.Payload) {
		bad("payload", fmt.Sprintf("%d bytes %x", len(it.Payload), trunc(it.Payload)), fmt.Sprintf("%d bytes %x", len(x.Payload), trunc(x.Payload)))
	}
	if headers && !mapsEqual(it.Headers, x.Headers) {
		bad("headers", fmt.Sprintf("%q", it.Headers), fmt.Sprintf("%q", x.Headers))
		if coercedUTF8(x.Headers, it.Headers) {
			// recorded finding: the value came back with its bytes that are not UTF-8 replaced by
			// U+FFFD. Named by backend and cause, so that any other change of a header is still
			// reported; the model goes on with what the store holds.
			vs[len(vs)-1].Loc = m.Cfg.Backend + "/header-value-not-utf8"
			x.Headers = cloneMap(it.Headers)
		}
	}
	if trace && !mapsEqual(it.Trace, x.Trace) {
		bad("trace", it.Trace, x.Trace)
	}
	if it.SchemaVersion != 0 && it.SchemaVersion != x.SchemaVersion {
		bad("schema_version", it.SchemaVersion, x.SchemaVersion)
	}
	return vs
}

// coercedUTF8: got equals want except that every value of want that is not valid UTF-8 has had its
// offending bytes replaced by U+FFFD (what encoding/json does to a Go string).
func coercedUTF8(want, got map[string]string) bool {
	if len(want) != len(got) {
		return false
	}
	some := false
	for k, w := range want {
		g, ok := got[k]
		if !ok {
			return false
		}
		if g == w {
			continue
		}
		if utf8.ValidString(w) || g != strings.ToValidUTF8(w, "\ufffd") && g != coerceJSON(w) {
			return false
		}
		some = true
	}
	return some
}

func coerceJSON(s string) string {
	b, err := json.Marshal(s)
	if err != nil {
		return s
	}
	var out string
	if json.Unmarshal(b, &out) != nil {
		return s
	}
	return out
}

func trunc(b []byte) []byte {
	if len(b) > 16 {
		return b[:16]
	}
	return b
}

type leaseOp int

const (
	opAck leaseOp = iota
	opNack
	opExtend
	opDead
)

func (o leaseOp) String() string { return [...]string{"ack", "nack", "extend", "dead"}[o] }

func (m *Model) findLease(id string) *Msg {
	if id == "" {
		return nil
	}
	if mid, ok := m.Lease[id]; ok {
		if x := m.Msgs[mid]; x != nil && x.State == queue.StateLeased && x.LeaseID == id {
			return x
		}
	}
	return nil
}

// expectLease predicts the class of a single lease mutation and applies it.
func (m *Model) applyLease(now time.Time, op leaseOp, id string, d time.Duration, reason string) string {
	if op == opExtend && d <= 0 {
		return "ok"
	}
	if strings.TrimSpace(id) == "" {
		return "notfound"
	}
	x := m.findLease(id)
	if x == nil {
		m.Stats.StalePresents++
		return "notfound"
	}
	if !now.Before(x.LeaseUntil) {
		m.Stats.ExpiredPresents++
		x.State = queue.StateQueued
		x.LeaseID = ""
		x.LeaseUntil = time.Time{}
		x.NextRunAt = now
		x.DeadReason = ""
		return "expired"
	}
	switch op {
	case opAck:
		if m.Cfg.DeliveredMaxAge > 0 {
			x.State = queue.StateDelivered
			x.LeaseID = ""
			x.LeaseUntil = time.Time{}
			x.NextRunAt = now
			x.DeadReason = ""
		} else {
			delete(m.Msgs, x.ID)
			m.Gone[x.ID] = "acked"
		}
	case opNack:
		if d < 0 {
			d = 0
		}
		x.State = queue.StateQueued
		x.LeaseID = ""
		x.LeaseUntil = time.Time{}
		x.NextRunAt = now.Add(d)
		x.DeadReason = ""
	case opExtend:
		x.LeaseUntil = x.LeaseUntil.Add(d)
		x.NextRunAt = x.LeaseUntil
	case opDead:
		x.State = queue.StateDead
		x.LeaseID = ""
		x.LeaseUntil = time.Time{}
		x.NextRunAt = now
		x.DeadReason = reason
	}
	return "ok"
}

// LeaseSingle checks Ack/Nack/Extend/MarkDead. C04 (fencing), C02.
func (m *Model) LeaseSingle(now time.Time, op leaseOp, id string, d time.Duration, reason string, err error) []Violation {
	var vs []Violation
	got := errClass(err)
	trimmed := strings.TrimSpace(id)
	if trimmed != id && trimmed != "" && !(op == opExtend && d <= 0) {
		// Whitespace-padded id: the contract does not say whether the store
		// normalises it. Accept "treated as the trimmed id" or "unknown".
		if got == "notfound" {
			return nil
		}
		id = trimmed
	}
	want := m.applyLease(now, op, id, d, reason)
	if got != want {
		rule := "C04.lease." + op.String() + "." + want + "_got_" + strings.SplitN(got, ":", 2)[0]
		vs = append(vs, viol(rule, "C04,C13", "%s(%q) returned %s, contract says %s", op, id, got, want))
	}
	return vs
}

// LeaseBatch checks AckBatch/NackBatch/MarkDeadBatch per id. C04.
func (m *Model) LeaseBatch(now time.Time, op leaseOp, ids []string, d time.Duration, reason string, res queue.LeaseBatchResult, err error) []Violation {
	var vs []Violation
	if err != nil {
		vs = append(vs, viol("C04.batch.error", "C04,C02", "%s batch failed: %v", op, err))
		return vs
	}
	type conf struct {
		id      string
		expired bool
	}
	want := map[conf]int{}
	succ := 0
	seen := map[string]bool{}
	for _, raw := range ids {
		id := strings.TrimSpace(raw)
		if id == "" {
			want[conf{raw, false}]++
			continue
		}
		if seen[id] {
			want[conf{id, false}]++
			continue
		}
		seen[id] = true
		switch m.applyLease(now, op, id, d, reason) {
		case "ok":
			succ++
		case "expired":
			want[conf{id, true}]++
		default:
			want[conf{id, false}]++
		}
	}
	got := map[conf]int{}
	for _, c := range res.Conflicts {
		got[conf{c.LeaseID, c.Expired}]++
	}
	if res.Succeeded != succ {
		vs = append(vs, viol("C04.batch.succeeded", "C04,C13", "%s batch %q: succeeded=%d, contract says %d", op, ids, res.Succeeded, succ))
	}
	same := len(got) == len(want)
	if same {
		for k, v := range want {
			if got[k] != v {
				same = false
			}
		}
	}
	if !same {
		vs = append(vs, viol("C04.batch.conflicts", "C04,C13", "%s batch %q: conflicts %v, contract says %v", op, ids, got, want))
	}
	return vs
}

func uniqueIDs(ids []string) []string {
	seen := map[string]bool{}
	var out []string
	for _, raw := range ids {
		id := strings.TrimSpace(raw)
		if id == "" || seen[id] {
			continue
		}
		seen[id] = true
		out = append(out, id)
	}
	return out
}

type manageOp int

const (
	mCancel manageOp = iota
	mRequeue
	mResume
	mDLQRequeue
	mDLQDelete
)

func (o manageOp) String() string {
	return [...]string{"cancel", "requeue", "resume", "dlq_requeue", "dlq_delete"}[o]
}

func (o manageOp) allowed() []queue.State {
	switch o {
	case mCancel:
		return []queue.State{queue.StateQueued, queue.StateLeased, queue.StateDead}
	case mRequeue:
		return []queue.State{queue.StateDead, queue.StateCanceled}
	case mResume:
		return []queue.State{queue.StateCanceled}
	default:
		return []queue.State{queue.StateDead}
	}
}

func stateIn(s queue.State, set []queue.State) bool {
	for _, t := range set {
		if s == t {
			return true
		}
	}
	return false
}

func (m *Model) applyManage(now time.Time, op manageOp, x *Msg) {
	switch op {
	case mCancel:
		x.State = queue.StateCanceled
	case mDLQDelete:
		delete(m.Msgs, x.ID)
		m.Gone[x.ID] = "dlq_delete"
		return
	default:
		x.State = queue.StateQueued
	}
	x.LeaseID = ""
	x.LeaseUntil = time.Time{}
	x.NextRunAt = now
	x.DeadReason = ""
}

// ManageIDs checks the by-id operator mutations. C14, C02.
func (m *Model) ManageIDs(now time.Time, op manageOp, ids []string, changed int, matched int, hasMatched bool, err error) []Violation {
	var vs []Violation
	if err != nil {
		return append(vs, viol("C14.ids.error", "C14,C02", "%s by ids failed: %v", op, err))
	}
	n := 0
	for _, id := range uniqueIDs(ids) {
		x := m.Msgs[id]
		if x == nil || !stateIn(x.State, op.allowed()) {
			continue
		}
		m.applyManage(now, op, x)
		n++
	}
	if changed != n {
		vs = append(vs, viol("C14.ids.count", "C14,C13", "%s(%q) reports %d changed, contract says %d", op, ids, changed, n))
	}
	if hasMatched && matched != n {
		vs = append(vs, viol("C14.ids.matched", "C14,C13", "%s(%q) reports matched=%d, contract says %d", op, ids, matched, n))
	}
	return vs
}

// selectByFilter is the reference selection: allowed states, every criterion,
// newest first by (received_at, id), capped.
func (m *Model) selectByFilter(op manageOp, req queue.MessageManageFilterRequest) []*Msg {
	limit := req.Limit
	if limit <= 0 {
		limit = 100
	}
	if limit > 1000 {
		limit = 1000
	}
	allowed := op.allowed()
	if req.State != "" {
		if !stateIn(req.State, allowed) {
			return nil
		}
		allowed = []queue.State{req.State}
	}
	var c []*Msg
	for _, x := range m.Msgs {
		if !stateIn(x.State, allowed) || !matchFilter(x, req.Route, req.Target) {
			continue
		}
		if !req.Before.IsZero() && !x.ReceivedAt.Before(req.Before) {
			continue
		}
		c = append(c, x)
	}
	sort.Slice(c, func(i, j int) bool {
		if c[i].ReceivedAt.Equal(c[j].ReceivedAt) {
			return c[i].ID > c[j].ID
		}
		return c[i].ReceivedAt.After(c[j].ReceivedAt)
	})
	if len(c) > limit {
		c = c[:limit]
	}
	return c
}

// ManageFilter checks the by-filter operator mutations. C14.
func (m *Model) ManageFilter(now time.Time, op manageOp, req queue.MessageManageFilterRequest, changed, matched int, preview bool, err error) []Violation {
	var vs []Violation
	if err != nil {
		return append(vs, viol("C14.filter.error", "C14,C02", "%s by filter failed: %v", op, err))
	}
	sel := m.selectByFilter(op, req)
	wantChanged := len(sel)
	if req.PreviewOnly {
		wantChanged = 0
	} else {
		for _, x := range sel {
			m.applyManage(now, op, x)
		}
	}
	if changed != wantChanged || matched != len(sel) || preview != req.PreviewOnly {
		vs = append(vs, viol("C14.filter.count", "C14,C13", "%s filter %+v reports changed=%d matched=%d preview=%v, contract says changed=%d matched=%d preview=%v", op, req, changed, matched, preview, wantChanged, len(sel), req.PreviewOnly))
	}
	return vs
}

// ListMessages predicts a listing (after the caller adopted pruning).
func (m *Model) ListMessages(req queue.MessageListRequest) ([]*Msg, bool) {
	limit := req.Limit
	if limit <= 0 {
		limit = 100
	}
	if limit > 1000 {
		limit = 1000
	}
	order := strings.ToLower(strings.TrimSpace(req.Order))
	if order == "" {
		order = "desc"
	}
	if order != "asc" && order != "desc" {
		return nil, false
	}
	var c []*Msg
	for _, x := range m.Msgs {
		if !matchFilter(x, req.Route, req.Target) {
			continue
		}
		if req.State != "" && x.State != req.State {
			continue
		}
		if !req.Before.IsZero() && !x.ReceivedAt.Before(req.Before) {
			continue
		}
		c = append(c, x)
	}
	sort.Slice(c, func(i, j int) bool {
		if c[i].ReceivedAt.Equal(c[j].ReceivedAt) {
			if order == "asc" {
				return c[i].ID < c[j].ID
			}
			return c[i].ID > c[j].ID
		}
		if order == "asc" {
			return c[i].ReceivedAt.Before(c[j].ReceivedAt)
		}
		return c[i].ReceivedAt.After(c[j].ReceivedAt)
	})
	if len(c) > limit {
		c = c[:limit]
	}
	return c, true
}

// CompareListing diffs the model against a full listing taken right after an
// operation (ListMessages asc, limit 1000, all includes) and adopts what the
// contract leaves free. `refused` = the operation reported an error / refusal.
func (m *Model) CompareListing(now time.Time, opDesc string, items []queue.Envelope) []Violation {
	var vs []Violation
	sweepAllowed := m.sweepAllowed
	evictMin, evictMax := m.evictMin, m.evictMax
	m.sweepAllowed, m.evictMin, m.evictMax = false, 0, 0
	defer func() { m.fresh = nil }()
	dd := m.doubtDeq
	m.doubtDeq = nil
	ddLeft := 0
	if dd != nil {
		ddLeft = dd.batch
	}

	obs := map[string]queue.Envelope{}
	for _, it := range items {
		if _, dup := obs[it.ID]; dup {
			vs = append(vs, viol("C02.duplicate", "C02", "after %s: message %s listed twice", opDesc, it.ID))
		}
		obs[it.ID] = it
	}
	// adopt ids of anonymous enqueues: an observed message unknown to the model
	// that matches a pending envelope in every supplied field.
	anon := m.newAnon
	m.newAnon = nil
	for _, it := range items {
		if _, ok := m.Msgs[it.ID]; ok {
			continue
		}
		matched := -1
		for i, x := range anon {
			if x == nil {
				continue
			}
			if x.Route == it.Route && x.Target == it.Target && bytes.Equal(x.Payload, it.Payload) && mapsEqual(x.Trace, it.Trace) {
				matched = i
				break
			}
		}
		if matched >= 0 {
			x := anon[matched]
			anon[matched] = nil
			x.ID = it.ID
			if it.ID == "" {
				vs = append(vs, viol("C02.blankid", "C02", "after %s: stored message has a blank id", opDesc))
			}
			m.Msgs[x.ID] = x
			continue
		}
		why := "never enqueued"
		if g, ok := m.Gone[it.ID]; ok {
			why = "was removed (" + g + ")"
		}
		vs = append(vs, viol("C02.appeared", "C02,C01", "after %s: message %s present in state %s but %s", opDesc, it.ID, it.State, why))
	}
	for _, x := range anon {
		if x == nil {
			continue
		}
		if evictMax > 0 && x.State == queue.StateQueued {
			// stored, then evicted by drop_oldest in favour of a later message of
			// the same request (fan-out on a nearly full queue)
			evictMax--
			if evictMin > 0 {
				evictMin--
			}
			m.Stats.EvictionsSeen++
			continue
		}
		if m.pruneEligible(x, now) {
			// stored with a received_at already beyond the retention age (explicit
			// timestamp) and removed by the retention pass of the call that made
			// this listing, before anybody learned its id
			m.Stats.PrunesAdopted++
			continue
		}
		vs = append(vs, viol("C02.lost.enqueue", "C02,C01,C12", "after %s: an accepted message (route %s target %s payload %x) is not in the queue", opDesc, x.Route, x.Target, trunc(x.Payload)))
	}

	// vanished messages must be explained by eviction or retention
	var vanished []*Msg
	for _, x := range m.sorted() {
		if _, ok := obs[x.ID]; !ok {
			vanished = append(vanished, x)
		}
	}
	if len(vanished) > 0 {
		vs = append(vs, m.explainVanished(now, opDesc, vanished, obs, evictMin, evictMax, sweepAllowed)...)
	} else if evictMin > 0 {
		vs = append(vs, viol("C12.depth.exceeded", "C12", "after %s: %d eviction(s) were needed to admit the message(s) but nothing was evicted", opDesc, evictMin))
	}

	// field-by-field comparison of what is still there
	for _, x := range m.sorted() {
		it, ok := obs[x.ID]
		if !ok {
			continue
		}
		// lease expired and (legally) swept back to queued?
		if x.State == queue.StateLeased && it.State == queue.StateQueued && !x.LeaseUntil.After(now) {
			if !sweepAllowed {
				vs = append(vs, viol("C02.sweep.unexpected", "C02,C13", "after %s: expired lease of %s was released by an operation that is not a dequeue", opDesc, x.ID))
			}
			if !it.NextRunAt.Equal(now) {
				vs = append(vs, viol("C05.sweep.nextrun", "C05,C13", "after %s: expired lease of %s released with next_run_at %s, want now %s", opDesc, x.ID, it.NextRunAt.Format(time.RFC3339Nano), now.Format(time.RFC3339Nano)))
			}
			x.State = queue.StateQueued
			x.LeaseID = ""
			x.LeaseUntil = time.Time{}
			x.NextRunAt = it.NextRunAt
			x.DeadReason = ""
			m.Stats.SweepsAdopted++
		}
		// a dequeue whose answer was lost: the message may be leased under an unknown id
		if dd != nil && ddLeft > 0 && it.State == queue.StateLeased && it.Attempt == x.Attempt+1 && matchFilter(x, dd.route, dd.target) &&
			it.NextRunAt.Equal(dd.now.Add(dd.ttl)) &&
			((x.State == queue.StateQueued && !x.NextRunAt.After(dd.now)) || (x.State == queue.StateLeased && !x.LeaseUntil.After(dd.now))) {
			ddLeft--
			x.State = queue.StateLeased
			x.Attempt = it.Attempt
			x.LeaseID = fmt.Sprintf("unknown-lease-%s-%d", x.ID, x.Attempt)
			x.LeaseUntil = it.NextRunAt
			x.NextRunAt = it.NextRunAt
			x.DeadReason = ""
			m.Lease[x.LeaseID] = x.ID
		}
		if it.State != x.State {
			vs = append(vs, viol("C02.state", "C02", "after %s: message %s is %s, contract says %s", opDesc, x.ID, it.State, x.State))
			// resynchronise so that one defect is reported once
			x.State = it.State
		}
		if !it.NextRunAt.Equal(x.NextRunAt) {
			vs = append(vs, viol("C05.nextrun", "C05,C02,C13", "after %s: message %s (%s) next_run_at %s, contract says %s", opDesc, x.ID, x.State, it.NextRunAt.Format(time.RFC3339Nano), x.NextRunAt.Format(time.RFC3339Nano)))
			x.NextRunAt = it.NextRunAt
		}
		if it.Attempt != x.Attempt {
			vs = append(vs, viol("C02.attempt", "C02,C03", "after %s: message %s attempt %d, contract says %d", opDesc, x.ID, it.Attempt, x.Attempt))
			x.Attempt = it.Attempt
		}
		if it.DeadReason != x.DeadReason {
			vs = append(vs, viol("C02.deadreason", "C02,C06", "after %s: message %s dead_reason %q, contract says %q", opDesc, x.ID, it.DeadReason, x.DeadReason))
			x.DeadReason = it.DeadReason
		}
		vs = append(vs, m.immutable("after "+opDesc, x, it, true, true, true)...)
	}
	return vs
}

func (m *Model) explainVanished(now time.Time, opDesc string, vanished []*Msg, obs map[string]queue.Envelope, evictMin, evictMax int, sweepAllowed bool) []Violation {
	var vs []Violation
	// survivors in the dead state, for the DLQ depth rule
	var deadSurvivors []*Msg
	var queuedSurvivors []*Msg
	for _, x := range m.Msgs {
		if _, ok := obs[x.ID]; !ok {
			continue
		}
		if x.State == queue.StateDead {
			deadSurvivors = append(deadSurvivors, x)
		}
		if x.State == queue.StateQueued && !m.fresh[x] {
			queuedSurvivors = append(queuedSurvivors, x)
		}
	}
	var unexplained []*Msg // not prunable: must be evictions
	var prunableEvictable int
	for _, x := range vanished {
		prunable := m.pruneEligible(x, now) || (sweepAllowed && m.pruneEligibleIfSwept(x, now))
		if !prunable && x.State == queue.StateDead && m.Cfg.pruneConfigured() && m.Cfg.DLQMaxDepth > 0 {
			newer := 0
			for _, s := range deadSurvivors {
				if !s.ReceivedAt.Before(x.ReceivedAt) {
					newer++
				}
			}
			prunable = newer >= m.Cfg.DLQMaxDepth
		}
		if prunable {
			m.Stats.PrunesAdopted++
			if x.State == queue.StateQueued {
				prunableEvictable++
			}
			continue
		}
		unexplained = append(unexplained, x)
	}
	// the rest have to be drop_oldest victims: queued, and oldest
	var victims []*Msg
	for _, x := range unexplained {
		if x.State != queue.StateQueued || evictMax == 0 {
			rule, props := "C02.vanished", "C02,C01"
			if x.State == queue.StateLeased {
				rule = "C02.vanished.leased"
			}
			if evictMax > 0 {
				rule, props = "C12.evicted.notqueued", "C12,C02"
			}
			vs = append(vs, viol(rule, props, "after %s: message %s (%s, received %s) disappeared without ack, delete, eligible prune or eviction", opDesc, x.ID, x.State, x.ReceivedAt.Format(time.RFC3339Nano)))
			continue
		}
		victims = append(victims, x)
	}
	if len(victims) > evictMax {
		vs = append(vs, viol("C12.evicted.toomany", "C12,C02", "after %s: %d queued messages evicted, at most %d needed", opDesc, len(victims), evictMax))
	}
	if len(victims)+prunableEvictable < evictMin {
		vs = append(vs, viol("C12.depth.exceeded", "C12", "after %s: %d eviction(s) needed to stay within max_depth, %d happened", opDesc, evictMin, len(victims)))
	}
	if len(victims) > 0 {
		m.Stats.EvictionsSeen += len(victims)
		// oldest: a lower set by insertion order, or by received_at
		bySeq, byRecv := true, true
		for _, v := range victims {
			for _, s := range queuedSurvivors {
				if s.Seq < v.Seq {
					bySeq = false
				}
				if s.ReceivedAt.Before(v.ReceivedAt) {
					byRecv = false
				}
			}
		}
		if !bySeq && !byRecv {
			v := viol("C12.evicted.notoldest", "C12", "after %s: drop_oldest evicted %s although an older queued message survives", opDesc, victims[0].ID)
			for _, x := range victims {
				if m.Reused[x.ID] {
					// the victim carries an id that an earlier, removed message had used
					v.Loc = m.Cfg.Backend + "/drop_oldest/victim-reused-id"
				}
			}
			vs = append(vs, v)
		}
	}
	for _, x := range vanished {
		delete(m.Msgs, x.ID)
		m.Gone[x.ID] = "pruned/evicted"
	}
	return vs
}

// CheckRefusalUnchanged is used right after an operation that reported an error:
// the listing must equal the model (CompareListing with no freedoms does that),
// this helper only tags the violations with the refusal rule.
func tagRefusal(vs []Violation) []Violation {
	for i := range vs {
		if strings.HasPrefix(vs[i].Rule, "C02.vanished") || vs[i].Rule == "C12.evicted.notqueued" || vs[i].Rule == "C02.state" {
			vs[i].Rule = "C12.refusal.changed:" + vs[i].Rule
			vs[i].Props = append(vs[i].Props, "C12")
		}
	}
	return vs
}

// CheckStats compares Store.Stats() with the model.
func (m *Model) CheckStats(st queue.Stats, now time.Time) []Violation {
	var vs []Violation
	for _, s := range []queue.State{queue.StateQueued, queue.StateLeased, queue.StateDelivered, queue.StateDead, queue.StateCanceled} {
		if st.ByState[s] != m.count(s) {
			vs = append(vs, viol("C02.stats.bystate", "C02,C13", "Stats().ByState[%s]=%d, model has %d", s, st.ByState[s], m.count(s)))
		}
	}
	if st.Total != len(m.Msgs) {
		vs = append(vs, viol("C02.stats.total", "C02,C13", "Stats().Total=%d, model has %d", st.Total, len(m.Msgs)))
	}
	var oldest, earliest time.Time
	for _, x := range m.Msgs {
		if x.State != queue.StateQueued {
			continue
		}
		if oldest.IsZero() || x.ReceivedAt.Before(oldest) {
			oldest = x.ReceivedAt
		}
		if earliest.IsZero() || x.NextRunAt.Before(earliest) {
			earliest = x.NextRunAt
		}
	}
	if !st.OldestQueuedReceivedAt.Equal(oldest) && !(st.OldestQueuedReceivedAt.IsZero() && oldest.IsZero()) {
		vs = append(vs, viol("C13.stats.oldest", "C13", "Stats().OldestQueuedReceivedAt=%v, model %v", st.OldestQueuedReceivedAt, oldest))
	}
	if !st.EarliestQueuedNextRun.Equal(earliest) && !(st.EarliestQueuedNextRun.IsZero() && earliest.IsZero()) {
		vs = append(vs, viol("C13.stats.earliest", "C13", "Stats().EarliestQueuedNextRun=%v, model %v", st.EarliestQueuedNextRun, earliest))
	}
	// the two derived figures: how long the oldest queued message has been waiting, and how far the
	// earliest due time lies behind the clock (zero while nothing is overdue)
	var age, lag time.Duration
	if !oldest.IsZero() && now.After(oldest) {
		age = now.Sub(oldest)
	}
	if !earliest.IsZero() && now.After(earliest) {
		lag = now.Sub(earliest)
	}
	if st.OldestQueuedAge != age {
		vs = append(vs, viol("C13.stats.age", "C13", "Stats().OldestQueuedAge=%v, model %v", st.OldestQueuedAge, age))
	}
	if st.ReadyLag != lag {
		vs = append(vs, viol("C13.stats.lag", "C13", "Stats().ReadyLag=%v, model %v", st.ReadyLag, lag))
	}
	// per-bucket backlog figures: every listed (route, target) bucket carries its own count and minimums,
	// no bucket is listed twice, buckets come largest first
	type agg struct {
		n                int
		oldest, earliest time.Time
	}
	buckets := map[string]*agg{}
	for _, x := range m.Msgs {
		if x.State != queue.StateQueued {
			continue
		}
		k := x.Route + "\x00" + x.Target
		a := buckets[k]
		if a == nil {
			a = &agg{}
			buckets[k] = a
		}
		a.n++
		if a.oldest.IsZero() || x.ReceivedAt.Before(a.oldest) {
			a.oldest = x.ReceivedAt
		}
		if a.earliest.IsZero() || x.NextRunAt.Before(a.earliest) {
			a.earliest = x.NextRunAt
		}
	}
	seen := map[string]bool{}
	minListed := -1
	for i, b := range st.TopQueued {
		k := b.Route + "\x00" + b.Target
		a := buckets[k]
		if a == nil || seen[k] {
			vs = append(vs, viol("C13.stats.bucket", "C13", "Stats().TopQueued[%d] = %s|%s: no queued message there, or listed twice", i, b.Route, b.Target))
			continue
		}
		seen[k] = true
		if b.Queued != a.n || !b.OldestQueuedReceivedAt.Equal(a.oldest) || !b.EarliestQueuedNextRun.Equal(a.earliest) {
			vs = append(vs, viol("C13.stats.bucket", "C13", "Stats().TopQueued[%d] = %s|%s queued=%d oldest=%v earliest=%v, model queued=%d oldest=%v earliest=%v", i, b.Route, b.Target, b.Queued, b.OldestQueuedReceivedAt, b.EarliestQueuedNextRun, a.n, a.oldest, a.earliest))
		}
		if i > 0 && st.TopQueued[i-1].Queued < b.Queued {
			vs = append(vs, viol("C13.stats.bucket", "C13", "Stats().TopQueued is not ordered by backlog: entry %d has %d, entry %d has %d", i-1, st.TopQueued[i-1].Queued, i, b.Queued))
		}
		if minListed < 0 || b.Queued < minListed {
			minListed = b.Queued
		}
	}
	// a bucket left out is no larger than any bucket listed (the listing is a "top" list); with fewer
	// buckets than the list has room for (the list never held more than the buckets there are) none is left out
	bkeys := make([]string, 0, len(buckets))
	for k := range buckets {
		bkeys = append(bkeys, k)
	}
	sort.Strings(bkeys)
	for _, k := range bkeys {
		a := buckets[k]
		if !seen[k] && (len(st.TopQueued) == 0 || a.n > minListed) {
			vs = append(vs, viol("C13.stats.bucket", "C13", "Stats().TopQueued (%d entries, smallest %d) leaves out bucket %q with %d queued messages", len(st.TopQueued), minListed, strings.ReplaceAll(k, "\x00", "|"), a.n))
			break
		}
	}
	return vs
}

// Hash is a cheap fingerprint of the model state (distinct-state measure).
func (m *Model) Hash() uint64 {
	var h uint64 = 1469598103934665603
	mix := func(s string) {
		for i := 0; i < len(s); i++ {
			h ^= uint64(s[i])
			h *= 1099511628211
		}
		h ^= 0xff
		h *= 1099511628211
	}
	for _, x := range m.sorted() {
		mix(x.Route)
		mix(x.Target)
		mix(string(x.State))
		mix(fmt.Sprint(x.Attempt))
	}
	return h
}

// Clone makes a deep copy (used to fork the model for an in-doubt operation).
func (m *Model) Clone() *Model {
	c := &Model{Cfg: m.Cfg, Msgs: make(map[string]*Msg, len(m.Msgs)), seq: m.seq,
		Lease: make(map[string]string, len(m.Lease)), Gone: make(map[string]string, len(m.Gone)), Reused: make(map[string]bool, len(m.Reused)),
		sweepAllowed: m.sweepAllowed, evictMin: m.evictMin, evictMax: m.evictMax, Stats: m.Stats, SweepStallUntil: m.SweepStallUntil}
	old2new := map[*Msg]*Msg{}
	for id, x := range m.Msgs {
		y := *x
		y.Payload = append([]byte(nil), x.Payload...)
		y.Headers = cloneMap(x.Headers)
		y.Trace = cloneMap(x.Trace)
		c.Msgs[id] = &y
		old2new[x] = &y
	}
	for k, v := range m.Lease {
		c.Lease[k] = v
	}
	for k, v := range m.Gone {
		c.Gone[k] = v
	}
	for k, v := range m.Reused {
		c.Reused[k] = v
	}
	for _, x := range m.newAnon {
		y := *x
		c.newAnon = append(c.newAnon, &y)
		old2new[x] = &y
	}
	if m.fresh != nil {
		c.fresh = map[*Msg]bool{}
		for x := range m.fresh {
			if y := old2new[x]; y != nil {
				c.fresh[y] = true
			}
		}
	}
	if m.doubtDeq != nil {
		d := *m.doubtDeq
		c.doubtDeq = &d
	}
	return c
}

// doubtDequeue: a dequeue whose answer was never seen (crash). If it committed,
// up to batch offerable messages are now leased under lease ids nobody knows.
type doubtDequeue struct {
	now    time.Time
	ttl    time.Duration
	route  string
	target string
	batch  int
}

// DoubtDequeue arms the adoption of an unseen dequeue for the next CompareListing.
func (m *Model) DoubtDequeue(now time.Time, req queue.DequeueRequest) {
	batch := req.Batch
	if batch <= 0 {
		batch = 1
	}
	if batch > 100 {
		batch = 100
	}
	ttl := req.LeaseTTL
	if ttl <= 0 {
		ttl = 30 * time.Second
	}
	m.doubtDeq = &doubtDequeue{now: now, ttl: ttl, route: req.Route, target: req.Target, batch: batch}
	m.sweepAllowed = true
}
