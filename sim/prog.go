package sim

import (
	"crypto/sha256"
	"encoding/hex"
	"encoding/json"
	"fmt"
	"time"
)

// A Program is plain data: configuration + steps (+ fault plan). Executing it
// is a pure function of the program and the code under test. Values that only
// exist at run time (lease ids, generated message ids) are addressed by
// reference: "the k-th lease id issued so far (mod count)".

type EnvSpec struct {
	ID       string            `json:"id,omitempty"` // "" = let the store generate
	Route    string            `json:"route"`
	Target   string            `json:"target"`
	Payload  []byte            `json:"payload,omitempty"`
	Headers  map[string]string `json:"headers,omitempty"`
	RecvOff  *int64            `json:"recv_off,omitempty"` // ReceivedAt = now+off (nil: zero)
	NextOff  *int64            `json:"next_off,omitempty"` // NextRunAt = now+off (nil: zero)
	Attempt  int               `json:"attempt,omitempty"`
	DupOfRef *int              `json:"dup_of,omitempty"` // reuse the id of the k-th message ever enqueued
}

type FilterSpec struct {
	Route     string `json:"route,omitempty"`
	Target    string `json:"target,omitempty"`
	State     string `json:"state,omitempty"`
	Limit     int    `json:"limit,omitempty"`
	BeforeRef *int   `json:"before_ref,omitempty"` // received_at of the k-th message (+BeforeOff)
	BeforeOff int64  `json:"before_off,omitempty"`
	Preview   bool   `json:"preview,omitempty"`
	Order     string `json:"order,omitempty"`
}

type Step struct {
	Op string `json:"op"`

	Env   *EnvSpec  `json:"env,omitempty"`
	Items []EnvSpec `json:"items,omitempty"`
	Bulk  int       `json:"bulk,omitempty"` // enqueue_batch: Bulk copies of Items[0], each under a new id

	Route  string        `json:"route,omitempty"`
	Target string        `json:"target,omitempty"`
	Batch  int           `json:"batch,omitempty"`
	TTL    time.Duration `json:"ttl,omitempty"`

	LeaseRef  *int          `json:"lease_ref,omitempty"`
	LeaseLit  string        `json:"lease_lit,omitempty"` // used when LeaseRef == nil
	Pad       bool          `json:"pad,omitempty"`
	LeaseRefs []int         `json:"lease_refs,omitempty"` // batch: <0 => literals: -1 "", -2 "  ", -3 unknown
	Delay     time.Duration `json:"delay,omitempty"`
	Reason    string        `json:"reason,omitempty"`

	IDRefs []int       `json:"id_refs,omitempty"` // <0 => literals: -1 "", -2 unknown, -3 " "+id(0)+" "
	Filter *FilterSpec `json:"filter,omitempty"`

	D time.Duration `json:"d,omitempty"` // advance

	// W-sys
	Req     *ReqSpec  `json:"req,omitempty"`
	Reqs    []ReqSpec `json:"reqs,omitempty"` // race: requests served concurrently
	NewSpec *SysSpec  `json:"new_spec,omitempty"`

	// crash / fault / concurrency fields are added by the worlds that use them
	Image          string   `json:"image,omitempty"`            // crash: kill | powerloss
	ImgSeed        int64    `json:"img_seed,omitempty"`         // power-loss draw
	Tasks          [][]Step `json:"tasks,omitempty"`            // concurrent block
	Sched          []int    `json:"sched,omitempty"`            // scheduling choices
	Armed          []string `json:"armed,omitempty"`            // armed point label prefixes
	IDLits         []string `json:"ids,omitempty"`              // W-conc: literal message ids
	CrashAt        *int     `json:"crash_at,omitempty"`         // W-conc: crash at the n-th disk operation of the block
	CrashStep      *int     `json:"crash_step,omitempty"`       // W-conc: crash before the k-th scheduling decision of the block
	CrashAfterTask *int     `json:"crash_after_task,omitempty"` // W-conc: crash at the instant task i has finished while another is in a call
	Sweep          bool     `json:"sweep,omitempty"`            // W-conc: run every single-preemption schedule
	Handles        int      `json:"handles,omitempty"`          // W-conc: 2 = every caller has its own store handle on the one database file (a second process, e.g. hookaido mcp)
}

// Fault: "at the n-th hit of site <Site> (after step AfterStep began), do Action".
type Fault struct {
	AfterStep int    `json:"after_step"`
	Site      string `json:"site"` // disk.write disk.sync disk.truncate store.<Method> cfg.<kind> net...
	Hit       int    `json:"hit"`
	Action    string `json:"action"` // crash.kill crash.powerloss eio full short err
	ImgSeed   int64  `json:"img_seed,omitempty"`
}

type Program struct {
	World  string  `json:"world"`
	Store  QConfig `json:"store"`
	Offset int64   `json:"clock_offset_ns,omitempty"`
	Steps  []Step  `json:"steps"`
	Faults []Fault `json:"faults,omitempty"`
	// free-form, world specific
	Sys json.RawMessage `json:"sys,omitempty"`
}

func (p *Program) JSON() []byte {
	b, _ := json.MarshalIndent(p, "", " ")
	return b
}

func (p *Program) Hash() string {
	b, _ := json.Marshal(p)
	h := sha256.Sum256(b)
	return hex.EncodeToString(h[:6])
}

// Shape: the sequence of step kinds (distinct-program-shape measure).
func (p *Program) Shape() string {
	s := p.Store.Backend + "|" + p.Store.DropPolicy
	for _, st := range p.Steps {
		s += "," + st.Op
		if st.Op == "mcpgate" || st.Op == "mcpapply" {
			s += fmt.Sprintf("(%s,%v,%d,%q)", st.Route, st.Pad, st.Batch, st.Reason)
		}
		if st.Op == "conc" {
			for _, tk := range st.Tasks {
				s += "["
				for _, o := range tk {
					s += o.Op + " "
				}
				s += "]"
			}
			if st.CrashAt != nil {
				s += "crash@disk:" + st.Image
			}
			if st.CrashStep != nil {
				s += "crash@step:" + st.Image
			}
			if st.CrashAfterTask != nil {
				s += "crash@done:" + st.Image
			}
			if st.Sweep {
				s += "sweep:" + st.Image
			}
			if st.CrashAfterTask != nil {
				s += "crash@done:" + st.Image
			}
			if st.Sweep {
				s += "sweep:" + st.Image
			}
		}
		if st.Op == "filecase" {
			s += fmt.Sprintf("(%s,%s,%d,%v)", st.Route, st.Reason, st.Batch, st.Pad)
		}
	}
	for _, f := range p.Faults {
		s += ";" + f.Site + ":" + f.Action
	}
	return s
}

func intp(i int) *int       { return &i }
func int64p(i int64) *int64 { return &i }
