package sim

// Dispatcher world: the real PushDispatcher + HTTPDeliverer (+ net/http redirect
// logic) of a node built from generated configuration, delivering over simnet.
// Serves C06 (classification, bounded retry, backoff, DLQ), C16 (egress policy
// on every hop), C17 (outbound signing), C07 (push fidelity), C03 (exclusivity
// among dispatcher workers).

import (
	"bytes"
	"context"
	"crypto/hmac"
	"crypto/sha256"
	"encoding/hex"
	"encoding/json"
	"fmt"
	"math"
	"net"
	"net/http"
	"net/netip"
	"net/url"
	"os"
	"path/filepath"
	"sort"
	"strconv"
	"strings"
	"time"

	"github.com/nuetzliches/hookaido/internal/queue"
)

// ---- independent reference: classification / backoff ------------------------

// refOutcome: what the dispatcher must do with a delivery result.
// final: "status:<code>" | "error" | "denied".
func refOutcome(final string, status int, attempt int, retryMax int) (outcome string, reason string) {
	retryable := false
	switch final {
	case "denied":
		return "dead", "policy_denied"
	case "error":
		retryable = true
	default:
		switch {
		case status >= 200 && status <= 299:
			return "acked", ""
		case status == 408 || status == 429 || (status >= 500 && status <= 599):
			retryable = true
		}
	}
	if retryable {
		if attempt <= retryMax {
			return "retry", ""
		}
		return "dead", "max_retries"
	}
	return "dead", "no_retry"
}

func refDelayBounds(attempt int, r RetrySpec) (lo, hi time.Duration) {
	d := float64(r.Base) * math.Pow(2, float64(attempt-1))
	if c := float64(r.Cap); c > 0 && d > c {
		d = c
	}
	j := r.Jitter
	lo = time.Duration(d*(1-j)) - time.Microsecond
	hi = time.Duration(d*(1+j)) + time.Microsecond
	if lo < 0 {
		lo = 0
	}
	return
}

// ---- independent reference: egress policy (C16) -----------------------------

type egressRef struct {
	httpsOnly, redirects, rebind bool
	allow, deny                  []string
}

func (s *SysSpec) egressRef() egressRef {
	e := egressRef{httpsOnly: true, redirects: false, rebind: true} // documented defaults
	if s.Egress != nil {
		if s.Egress.HTTPSOnly != nil {
			e.httpsOnly = *s.Egress.HTTPSOnly
		}
		if s.Egress.Redirects != nil {
			e.redirects = *s.Egress.Redirects
		}
		if s.Egress.Rebind != nil {
			e.rebind = *s.Egress.Rebind
		}
		e.allow, e.deny = s.Egress.Allow, s.Egress.Deny
	}
	return e
}

func badAddr(a netip.Addr) bool {
	a = a.Unmap()
	return a.IsLoopback() || a.IsPrivate() || a.IsLinkLocalUnicast() || a.IsLinkLocalMulticast() || a.IsMulticast() || a.IsUnspecified() || a.IsInterfaceLocalMulticast()
}

func ruleMatches(rule string, host string, addrs []netip.Addr) bool {
	rule = strings.ToLower(strings.TrimSpace(rule))
	if pf, err := netip.ParsePrefix(rule); err == nil {
		for _, a := range addrs {
			if pf.Contains(a.Unmap()) {
				return true
			}
		}
		return false
	}
	if ip, err := netip.ParseAddr(rule); err == nil {
		for _, a := range addrs {
			if a.Unmap() == ip.Unmap() {
				return true
			}
		}
		return host == rule
	}
	switch {
	case rule == "*":
		return true
	case strings.HasPrefix(rule, "*."):
		return strings.HasSuffix(host, rule[1:]) && len(host) > len(rule[1:])
	}
	return host == rule
}

func (e egressRef) needIPs() bool {
	if e.rebind {
		return true
	}
	for _, r := range append(append([]string(nil), e.allow...), e.deny...) {
		if _, err := netip.ParsePrefix(r); err == nil {
			return true
		}
		if _, err := netip.ParseAddr(r); err == nil {
			return true
		}
	}
	return false
}

// allowed decides one URL given the addresses the resolver returned for the
// check (nil for IP literals: the literal itself). ok=false: denied.
func (e egressRef) allowed(u *url.URL, resolved []net.IP) (ok bool, why string) {
	scheme := strings.ToLower(u.Scheme)
	if scheme != "http" && scheme != "https" {
		return false, "scheme " + scheme
	}
	if e.httpsOnly && scheme != "https" {
		return false, "https_only"
	}
	host := strings.TrimSuffix(strings.ToLower(u.Hostname()), ".")
	if host == "" {
		return false, "empty host"
	}
	var addrs []netip.Addr
	if lit, err := netip.ParseAddr(host); err == nil {
		addrs = []netip.Addr{lit}
	} else {
		for _, ip := range resolved {
			if a, ok := netip.AddrFromSlice(ip); ok {
				addrs = append(addrs, a)
			}
		}
	}
	if e.rebind {
		for _, a := range addrs {
			if badAddr(a) {
				return false, "resolves to " + a.String()
			}
		}
	}
	for _, r := range e.deny {
		if ruleMatches(r, host, addrs) {
			return false, "deny rule " + r
		}
	}
	if len(e.allow) > 0 {
		for _, r := range e.allow {
			if ruleMatches(r, host, addrs) {
				return true, ""
			}
		}
		return false, "not in allowlist"
	}
	return true, ""
}

// ---- world ------------------------------------------------------------------

type hop struct {
	nr       *NetRequest
	received bool
	resolved []net.IP
	lookedUp bool
	dnsFail  bool
}

type delivery struct {
	hops        []hop
	lookups     map[string][]net.IP // latest answer per host
	failed      map[string]bool
	first       map[string][]net.IP // first answer per host in this delivery (the first-hop check)
	firstFailed map[string]bool
}

type dmsg struct {
	id       string
	token    string
	route    *RouteSpec
	target   *DeliverSpec
	sends    int // requests that reached the target URL in this enqueue cycle
	records  int
	expect   *settlement
	conflict bool // a settlement for this message hit a lease conflict
	done     string
	ok2xx    int  // deliveries the target answered with 2xx
	acked    bool // the enqueue returned without error
	wasGone  bool // absent at an earlier restart (reported once)
}

type settlement struct {
	kind    string // acked | retry | dead
	reason  string
	lo, hi  time.Duration
	attempt int
}

type DispatchWorld struct {
	*SysWorld
	Model      *Model
	orphanToks map[string]bool
	byID       map[string]*dmsg
	byLease    map[string]*dmsg
	cur        map[*Task]*delivery // per worker: the delivery in progress
	tokSeq     int
	pub        []*dmsg
	inDeliver  map[string]*Task // message id -> worker currently between dequeue and settlement
	interTrace string
	settleLog  []string
	taskItems  map[*Task][]queue.Envelope // what each worker holds (from its last dequeue)
	expect     map[string]*settlement     // by lease id: the settlement the recorded outcome calls for
	leaseUntil map[string]time.Time       // by lease id: expiry as granted
	stalled    map[*Task]bool             // the simulator moved the clock while this worker was mid-cycle (since its last dequeue)
	faulted    map[string]map[string]int  // by lease id: injected store faults met by settlement calls, per method
	lostRecs   map[string]int             // by message id: attempt records lost to an injected store fault

	// crash mode (SQLite on the simulated disk)
	prog      *Program
	fired     map[int]bool
	stepIdx   int
	stepStart []int
	opsBase   int
	restarts  int
	pendingF  *Fault
	crashedAt bool // at least one crash happened in this run
}

func (w *DispatchWorld) add(rule, props, loc, format string, a ...any) {
	v := viol(rule, props, format, a...)
	v.Loc = loc
	w.Res.Violations = append(w.Res.Violations, v)
	w.Res.logf("  VIOLATION %s", v.String())
}

func (w *DispatchWorld) addAll(vs []Violation, loc string) {
	for _, v := range vs {
		if v.Loc == "" {
			v.Loc = loc
		}
		w.Res.Violations = append(w.Res.Violations, v)
		w.Res.logf("  VIOLATION %s", v.String())
	}
}

func (w *DispatchWorld) retryFor(d *DeliverSpec) RetrySpec {
	if d.Retry != nil {
		return *d.Retry
	}
	if w.Spec.DefaultRetry != nil {
		return *w.Spec.DefaultRetry
	}
	return RetrySpec{Max: 8, Base: 2 * time.Second, Cap: 2 * time.Minute, Jitter: 0.2}
}

func (w *DispatchWorld) curDelivery() *delivery {
	t := w.Sched.Current()
	if t == nil {
		return nil
	}
	d := w.cur[t]
	if d == nil {
		d = &delivery{lookups: map[string][]net.IP{}, failed: map[string]bool{}, first: map[string][]net.IP{}, firstFailed: map[string]bool{}}
		w.cur[t] = d
	}
	return d
}

func NewDispatchWorld(spec *SysSpec, offset int64, seed int64, arm func(string) bool, simDisk ...bool) (*DispatchWorld, error) {
	w := &DispatchWorld{byID: map[string]*dmsg{}, byLease: map[string]*dmsg{}, cur: map[*Task]*delivery{}, inDeliver: map[string]*Task{}, taskItems: map[*Task][]queue.Envelope{}, expect: map[string]*settlement{}, leaseUntil: map[string]time.Time{}, stalled: map[*Task]bool{}, faulted: map[string]map[string]int{}, lostRecs: map[string]int{}}
	w.Model = NewModel(sysQConfig(spec))
	sw, err := NewSysWorld(spec, offset, SysOptions{Seed: seed, ArmPoints: arm, StartPush: true, SimDisk: len(simDisk) > 0 && simDisk[0], OnStore: func(ss *SimStore) {
		ss.OnEnqueue = func(envs []queue.Envelope, batch bool, n int, err error) {
			if w.diskDead() {
				return
			}
			w.addAll(w.Model.Enqueue(w.Clock.Peek(), envs, batch, n, err), "dispatch/enqueue")
		}
		ss.OnDequeue = w.onDequeue
		ss.OnAttempt = w.onAttempt
		ss.OnLease = w.onLease
		ss.OnFault = w.onFault
	}})
	if err != nil {
		return nil, err
	}
	w.SysWorld = sw
	w.Net.OnLookup = func(host string, ips []net.IP, failed bool) {
		if d := w.curDelivery(); d != nil {
			if _, seen := d.first[host]; !seen {
				d.first[host] = ips
				d.firstFailed[host] = failed
			}
			d.lookups[host] = ips
			d.failed[host] = failed
		}
	}
	w.Net.OnDelay = func(time.Duration) {
		// one clock for all workers: a delay met by one worker also passes for
		// every other worker that is in the middle of a cycle, where in a real
		// process the waits would overlap. Those workers count as stalled.
		cur := w.Sched.Current()
		for t := range w.taskItems {
			if t != cur {
				w.stalled[t] = true
			}
		}
	}
	w.Net.OnRequest = func(nr *NetRequest, received bool) {
		if d := w.curDelivery(); d != nil {
			h := hop{nr: nr, received: received}
			host := strings.TrimSuffix(strings.ToLower(hostOnly(nr.Host)), ".")
			if ips, ok := d.lookups[host]; ok {
				h.resolved, h.lookedUp, h.dnsFail = ips, true, d.failed[host]
			}
			d.hops = append(d.hops, h)
		}
	}
	return w, nil
}

func hostOnly(h string) string {
	if hp, _, err := net.SplitHostPort(h); err == nil {
		return hp
	}
	return strings.Trim(h, "[]")
}

// diskDead: the process died (crash mode); what the dying call returned is
// not judged, the state after restart is.
func (w *DispatchWorld) diskDead() bool { return w.Disk != nil && w.Disk.Dead() }

func (w *DispatchWorld) onDequeue(req queue.DequeueRequest, resp queue.DequeueResponse, err error) {
	if w.diskDead() {
		return
	}
	now := w.Clock.Peek()
	w.addAll(w.Model.Dequeue(now, req, resp, err), "dispatch/dequeue")
	t := w.Sched.Current()
	// the worker starts a new cycle: every lease of its previous cycle whose
	// delivery was recorded has been settled by a call the store accepted -
	// unless an injected store fault refused the settlement of last resort (the
	// single-lease call; a refused batch call falls back to single calls)
	for _, it := range w.taskItems[t] {
		ex := w.expect[it.LeaseID]
		if ex == nil {
			continue
		}
		f := w.faulted[it.LeaseID]
		if f["Ack"]+f["Nack"]+f["MarkDead"] == 0 {
			tok := it.ID
			if dm := w.byID[it.ID]; dm != nil {
				tok = dm.token
			}
			w.add("C06.settle.dropped", "C06,C05", "dispatch/settle", "the delivery of %s (attempt %d) was recorded with outcome %s but the worker began its next cycle without a settlement call for that lease reaching the store (injected faults on its calls: %v)", tok, ex.attempt, ex.kind, f)
		} else {
			w.Res.probe("dispatch.settlement_lost_to_store_fault")
		}
		delete(w.expect, it.LeaseID)
	}
	w.taskItems[t] = append([]queue.Envelope(nil), resp.Items...)
	w.stalled[t] = false
	if len(resp.Items) > 1 {
		w.Res.probe("dispatch.microbatch")
	}
	for _, it := range resp.Items {
		w.leaseUntil[it.LeaseID] = it.LeaseUntil
		dm := w.byID[it.ID]
		if dm == nil {
			continue
		}
		w.byLease[it.LeaseID] = dm
		// C03 at the dispatcher: a second worker may receive the message only
		// after the first lease ended (ack/nack/dead, expiry, operator mutation)
		if other := w.inDeliver[it.ID]; other != nil && other != t {
			// the first worker's lease expired while it was stalled mid-delivery:
			// its settlement will fail, so the "at most max+1 sends" clause (which
			// assumes that lease mutations succeed) does not apply to this message
			w.Res.probe("dispatch.redelivered_while_first_worker_stalled")
			dm.conflict = true
		}
		w.inDeliver[it.ID] = t
	}
	if len(resp.Items) > 0 {
		w.Res.probe("dispatch.dequeue.nonempty")
	}
	// a dequeue may have released expired leases (of any route): adopt that now,
	// not at the end of the step, so that later calls are judged against it
	w.sync("dequeue")
}

// onAttempt: the dispatcher recorded the outcome of one delivery. Everything
// the transport saw for this worker since its previous record belongs to it.
func (w *DispatchWorld) onAttempt(a queue.DeliveryAttempt, err error) {
	if w.diskDead() {
		// the delivery itself happened: remember a 2xx for the conservation rule
		if dm := w.byID[a.EventID]; dm != nil && a.StatusCode >= 200 && a.StatusCode <= 299 {
			dm.ok2xx++
		}
		delete(w.cur, w.Sched.Current())
		return
	}
	t := w.Sched.Current()
	d := w.cur[t]
	delete(w.cur, t)
	if d == nil {
		d = &delivery{lookups: map[string][]net.IP{}, failed: map[string]bool{}, first: map[string][]net.IP{}, firstFailed: map[string]bool{}}
	}
	dm := w.byID[a.EventID]
	loc := "dispatch/attempt"
	if dm == nil {
		w.add("C06.attempt.unknown", "C06", loc, "attempt recorded for unknown message %s", a.EventID)
		return
	}
	if err == errInjected {
		w.lostRecs[a.EventID]++
		dm.conflict = true
	} else {
		dm.records++
	}
	retry := w.retryFor(dm.target)
	eg := w.Spec.egressRef()
	// the lease this worker holds for the message (the message itself may have
	// been re-leased to another worker meanwhile if this one was stalled)
	var held *queue.Envelope
	for i := range w.taskItems[t] {
		if w.taskItems[t][i].ID == a.EventID {
			held = &w.taskItems[t][i]
		}
	}
	wantAttempt := 0
	if held != nil {
		wantAttempt = held.Attempt
	}

	// --- C16: every hop that reached the network must have been allowed ---
	target, _ := url.Parse(dm.target.URL)
	firstAllowed, firstWhy := true, ""
	{
		host := strings.TrimSuffix(strings.ToLower(target.Hostname()), ".")
		ips, looked := d.first[host]
		if d.firstFailed[host] {
			// lookup failed: an ordinary retryable error, nothing may be sent
			firstAllowed, firstWhy = true, "dnsfail"
		} else {
			_ = looked
			firstAllowed, firstWhy = eg.allowed(target, ips)
		}
	}
	denied := false
	for i, h := range d.hops {
		u, perr := url.Parse(h.nr.URL)
		if perr != nil {
			continue
		}
		ok, why := eg.allowed(u, h.resolved)
		if eg.needIPs() && !h.lookedUp {
			if _, lit := netip.ParseAddr(strings.TrimSuffix(strings.ToLower(u.Hostname()), ".")); lit != nil {
				w.add("C16.hop.unchecked", "C16", "dispatch/egress", "request to %s was sent without resolving the host for the policy check", h.nr.URL)
			}
		}
		if i > 0 && !eg.redirects {
			w.add("C16.redirect.followed", "C16", "dispatch/egress", "redirect to %s followed although redirects are off", h.nr.URL)
		}
		if !ok {
			w.add("C16.hop.denied.sent", "C16", "dispatch/egress", "request to %s (hop %d, resolved %v) was sent although the egress policy denies it: %s", h.nr.URL, i, h.resolved, why)
			denied = true
		}
		w.checkRequest(dm, held, h, i)
	}
	if len(d.hops) > 1 {
		w.Res.probe("dispatch.redirect.followed")
	}

	// --- what was the result of the delivery, as the network saw it? ---
	final, status := "error", 0
	switch {
	case !firstAllowed:
		final = "denied"
		w.Res.probe("egress.denied.target")
		if len(d.hops) > 0 && !denied {
			w.add("C16.denied.sent", "C16", "dispatch/egress", "target %s is denied by the egress policy (%s) but a request was sent", dm.target.URL, firstWhy)
		}
	case len(d.hops) == 0:
		final = "error" // dns failure, signing impossible: nothing sent
		w.Res.probe("dispatch.nothing_sent")
	default:
		last := d.hops[len(d.hops)-1]
		switch last.nr.Action.Kind {
		case "status":
			final, status = "status", last.nr.Action.Status
		case "redirect":
			final, status = "status", last.nr.Action.Status
			if eg.redirects {
				// the next hop was refused by policy (or the chain ended): the
				// client reports an error for a denied hop, the 3xx otherwise
				loc2, _ := url.Parse(last.nr.Action.Location)
				if loc2 != nil {
					abs := resolveRef(last.nr.URL, last.nr.Action.Location)
					host := strings.TrimSuffix(strings.ToLower(abs.Hostname()), ".")
					if d.failed[host] {
						// the policy check looked the next hop's name up (an address or
						// CIDR rule has to be held against its addresses) and the name
						// does not resolve: an ordinary retryable error, as for the first
						// hop - not a denial, and not the 3xx
						final = "error"
						w.Res.probe("egress.redirect_hop.dnsfail")
					} else if ok, _ := eg.allowed(abs, d.lookups[host]); !ok {
						final = "denied"
						w.Res.probe("egress.denied.redirect_hop")
					}
				}
			}
		default:
			final = "error"
		}
	}
	if len(d.hops) > 0 && d.hops[0].received {
		dm.sends++
	}
	// C03 at the dispatcher: the lease TTL is sized so that a sequential
	// micro-batch cannot outlive its leases. Unless the simulator stalled this
	// worker (clock moved while it was parked mid-cycle), every delivery starts
	// and is settled while the worker's own lease is still running.
	if held != nil && len(d.hops) > 0 && !w.stalled[t] && !held.LeaseUntil.IsZero() && !d.hops[0].nr.At.Before(held.LeaseUntil) {
		w.add("C03.dispatch.lease_outlived", "C03,C06", "dispatch/deliver", "worker started the delivery of %s at %s although its lease ran out at %s and nothing stalled the worker (deliveries of one micro-batch took longer than the lease the dispatcher asked for)", dm.token, off(d.hops[0].nr.At), off(held.LeaseUntil))
	}
	outcome, reason := refOutcome(final, status, a.Attempt, retry.Max)
	if outcome == "acked" {
		dm.ok2xx++
	}
	w.Res.probe("deliver." + final + "." + outcome)
	w.Res.logf("  delivery %s attempt=%d hops=%d final=%s/%d -> recorded outcome=%s reason=%q status=%d%s", dm.token, a.Attempt, len(d.hops), final, status, a.Outcome, a.DeadReason, a.StatusCode, debugErr(a.Error))

	if a.Attempt != wantAttempt {
		w.add("C06.attempt.number", "C06", loc, "attempt record for %s carries attempt %d, the lease says %d", dm.token, a.Attempt, wantAttempt)
	}
	if string(a.Outcome) != outcome || a.DeadReason != reason {
		w.add("C06.classify", "C06,C16", loc+"/"+final, "delivery result %s/%d at attempt %d (retry.max %d): recorded outcome=%s reason=%q, contract says outcome=%s reason=%q", final, status, a.Attempt, retry.Max, a.Outcome, a.DeadReason, outcome, reason)
	}
	if final == "status" && a.StatusCode != status {
		w.add("C06.attempt.status", "C06", loc, "attempt record status %d, target answered %d", a.StatusCode, status)
	}
	if err != nil && err != errInjected {
		w.add("C06.attempt.notrecorded", "C06", loc, "RecordAttempt failed: %v", err)
	}
	st := &settlement{kind: outcome, reason: reason, attempt: a.Attempt}
	if outcome == "retry" {
		st.lo, st.hi = refDelayBounds(a.Attempt, retry)
	}
	if held != nil {
		w.expect[held.LeaseID] = st
	}
	if dm.sends > retry.Max+1 && !dm.conflict {
		w.add("C06.sends.bound", "C06", loc, "message %s reached its target %d times in one enqueue cycle, retry.max+1 = %d", dm.token, dm.sends, retry.Max+1)
	}
}

func resolveRef(base, ref string) *url.URL {
	b, err := url.Parse(base)
	if err != nil {
		return &url.URL{}
	}
	r, err := url.Parse(ref)
	if err != nil {
		return &url.URL{}
	}
	return b.ResolveReference(r)
}

// checkRequest: C07 (body / headers) and C17 (signature) for one request.
func (w *DispatchWorld) checkRequest(dm *dmsg, held *queue.Envelope, h hop, idx int) {
	nr := h.nr
	if idx == 0 {
		if !bytes.Equal(nr.Body, []byte(dm.token)) {
			w.add("C07.push.body", "C07", "dispatch/request", "target received body %q, accepted payload is %q", trunc(nr.Body), dm.token)
		}
		if nr.Method != "POST" {
			w.add("C07.push.method", "C07", "dispatch/request", "delivery used method %s", nr.Method)
		}
		for _, k := range []string{"X-Tok", "X-Extra"} {
			want := ""
			if held != nil {
				want = held.Headers[k]
			}
			if got := nr.Header.Get(k); got != want {
				w.add("C07.push.header", "C07", "dispatch/request", "target received header %s=%q, stored value is %q", k, got, want)
			}
		}
		if held != nil {
			// the whole set: every stored header arrives with its value, and no
			// X- header arrives that this message does not carry (signature
			// headers and the gateway's own X-Hookaido-* aside)
			stored := map[string]string{}
			for k, v := range held.Headers {
				stored[http.CanonicalHeaderKey(k)] = v
			}
			var snames []string
			for k := range stored {
				snames = append(snames, k)
			}
			sort.Strings(snames)
			for _, k := range snames {
				if got := nr.Header.Get(k); got != stored[k] {
					w.add("C07.push.header", "C07", "dispatch/request", "target received header %s=%q, stored value is %q", k, got, stored[k])
				}
			}
			skip := map[string]bool{}
			if sgn := dm.target.Sign; sgn != nil {
				skip["X-Hookaido-Signature"], skip["X-Hookaido-Timestamp"] = true, true
				skip[http.CanonicalHeaderKey(sgn.SigHeader)], skip[http.CanonicalHeaderKey(sgn.TSHeader)] = true, true
			}
			var names []string
			for k := range nr.Header {
				names = append(names, k)
			}
			sort.Strings(names)
			for _, k := range names {
				ck := http.CanonicalHeaderKey(k)
				if !strings.HasPrefix(ck, "X-") || strings.HasPrefix(ck, "X-Hookaido-") || skip[ck] {
					continue
				}
				if _, ok := stored[ck]; !ok {
					w.add("C07.push.header.foreign", "C07", "dispatch/request", "target received header %s=%q with message %s, which does not carry it (it belongs to another message)", k, nr.Header.Get(k), dm.token)
				}
			}
		}
	}
	sg := dm.target.Sign
	if sg == nil || idx > 0 {
		return
	}
	sigH, tsH := "X-Hookaido-Signature", "X-Hookaido-Timestamp"
	if sg.SigHeader != "" {
		sigH = sg.SigHeader
	}
	if sg.TSHeader != "" {
		tsH = sg.TSHeader
	}
	tsStr, sig := nr.Header.Get(tsH), nr.Header.Get(sigH)
	if tsStr == "" || sig == "" {
		w.add("C17.sign.missing", "C17", "dispatch/sign", "signed target received no %s / %s header", tsH, sigH)
		return
	}
	if tsStr != strconv.FormatInt(nr.At.Unix(), 10) {
		w.add("C17.sign.timestamp", "C17", "dispatch/sign", "timestamp header %s, signing time %d", tsStr, nr.At.Unix())
	}
	secret, ok := w.refSigningSecret(sg, nr.At)
	if !ok {
		w.add("C17.sign.novalid.sent", "C17", "dispatch/sign", "a request was sent although no secret version is valid at %s", nr.At.Format(time.RFC3339))
		return
	}
	p := nr.Path
	if p == "" {
		p = "/"
	}
	sum := sha256.Sum256(nr.Body)
	mac := hmac.New(sha256.New, []byte(secret))
	mac.Write([]byte(strings.ToUpper(nr.Method) + "\n" + p + "\n" + tsStr + "\n" + hex.EncodeToString(sum[:])))
	want := hex.EncodeToString(mac.Sum(nil))
	if sig != want {
		w.add("C17.sign.signature", "C17", "dispatch/sign", "signature header does not equal HMAC-SHA256 under the version the rule selects at %s (selection %q)", nr.At.Format(time.RFC3339), sg.Selection)
	}
	w.Res.probe("sign.verified")
}

// refSigningSecret: reference selection among versions valid at `at`
// (valid_from inclusive, valid_until exclusive; newest_valid | oldest_valid, ties by id).
func (w *DispatchWorld) refSigningSecret(sg *SignSpec, at time.Time) (string, bool) {
	if len(sg.SecretRefs) == 0 {
		return sg.Secret, sg.Secret != ""
	}
	type cand struct {
		id, val string
		from    time.Time
	}
	var cs []cand
	for _, ref := range sg.SecretRefs {
		for _, sc := range w.Spec.Secrets {
			if sc.ID != ref {
				continue
			}
			from := w.Spec.secAt(sc.ValidFrom)
			if at.Before(from) {
				continue
			}
			if sc.ValidUntil != nil && !at.Before(w.Spec.secAt(*sc.ValidUntil)) {
				continue
			}
			cs = append(cs, cand{sc.ID, sc.Value, from})
		}
	}
	if len(cs) == 0 {
		return "", false
	}
	oldest := strings.ToLower(sg.Selection) == "oldest_valid"
	sort.Slice(cs, func(i, j int) bool {
		if cs[i].from.Equal(cs[j].from) {
			return cs[i].id < cs[j].id
		}
		if oldest {
			return cs[i].from.Before(cs[j].from)
		}
		return cs[i].from.After(cs[j].from)
	})
	return cs[0].val, true
}

// onFault: an injected store fault refused a call of the dispatcher.
func (w *DispatchWorld) onFault(method string, ids []string, a *queue.DeliveryAttempt) {
	w.Res.probe("dispatch.storefault." + method)
	if a != nil {
		// the attempt record is lost; the delivery itself is judged as usual
		w.onAttempt(*a, errInjected)
		return
	}
	for _, id := range ids {
		if w.faulted[id] == nil {
			w.faulted[id] = map[string]int{}
		}
		w.faulted[id][method]++
		if dm := w.byLease[id]; dm != nil {
			dm.conflict = true // a refused settlement leads to a redelivery: the sends bound assumes settlements succeed
		}
	}
	w.settleLog = append(w.settleLog, fmt.Sprintf("  store fault: %s of %d lease(s) refused", method, len(ids)))
}

func (w *DispatchWorld) onLease(method string, ids []string, d time.Duration, reason string, res *queue.LeaseBatchResult, err error) {
	if w.diskDead() {
		return
	}
	now := w.Clock.Peek()
	loc := "dispatch/settle"
	kind := map[string]string{"Ack": "acked", "AckBatch": "acked", "Nack": "retry", "NackBatch": "retry", "MarkDead": "dead", "MarkDeadBatch": "dead"}[method]
	conflicts := map[string]bool{}
	if res != nil {
		for _, c := range res.Conflicts {
			conflicts[c.LeaseID] = true
		}
	}
	for _, id := range ids {
		dm := w.byLease[id]
		if dm == nil {
			continue
		}
		delete(w.inDeliver, dm.id)
		if err != nil || conflicts[id] {
			dm.conflict = true
		}
		if until, ok := w.leaseUntil[id]; ok && !now.Before(until) && !w.stalled[w.Sched.Current()] {
			w.add("C03.dispatch.lease_outlived", "C03,C06", loc, "%s of %s at %s: the worker's lease ran out at %s although nothing stalled the worker (the micro-batch took longer than the lease the dispatcher asked for, so the message is delivered again)", method, dm.token, off(now), off(until))
		}
		delete(w.leaseUntil, id)
		ex := w.expect[id]
		if ex == nil {
			w.add("C06.settle.norecord", "C06", loc, "%s of %s without a recorded attempt", method, dm.token)
			continue
		}
		delete(w.expect, id)
		if kind != ex.kind {
			w.add("C06.settle.kind", "C06", loc, "%s settled with %s, the recorded outcome is %s", dm.token, method, ex.kind)
			continue
		}
		switch kind {
		case "retry":
			if d < ex.lo || d > ex.hi {
				w.add("C06.backoff", "C06,C05", loc, "retry of %s after attempt %d scheduled with delay %s, contract says [%s, %s]", dm.token, ex.attempt, d, ex.lo, ex.hi)
			}
			// one batch call per distinct delay is issued in map order by the
			// product: the calls touch disjoint leases, so the log sorts them
			w.settleLog = append(w.settleLog, fmt.Sprintf("  retry of %s after attempt %d in %s", dm.token, ex.attempt, d))
			w.Res.probe("settle.retry")
		case "dead":
			if reason != ex.reason {
				w.add("C06.dead.reason", "C06", loc, "%s dead-lettered as %q, contract says %q", dm.token, reason, ex.reason)
			}
			w.Res.probe("settle.dead." + ex.reason)
		default:
			w.Res.probe("settle.acked")
		}
	}
	// store conformance (C04 at the dispatcher)
	switch method {
	case "Ack", "Nack", "MarkDead", "Extend":
		op := map[string]leaseOp{"Ack": opAck, "Nack": opNack, "MarkDead": opDead, "Extend": opExtend}[method]
		w.addAll(w.Model.LeaseSingle(now, op, ids[0], d, reason, err), loc)
	default:
		op := map[string]leaseOp{"AckBatch": opAck, "NackBatch": opNack, "MarkDeadBatch": opDead}[method]
		if res != nil {
			w.addAll(w.Model.LeaseBatch(now, op, ids, d, reason, *res, err), loc)
		}
	}
}

// sync compares the queue with the model and learns ids of new messages.
func (w *DispatchWorld) sync(desc string) {
	sort.Strings(w.settleLog)
	for _, l := range w.settleLog {
		w.Res.logf("%s", l)
	}
	w.settleLog = nil
	items, err := w.Listing()
	if err != nil {
		w.add("C02.list.error", "C02", "dispatch", "listing failed: %v", err)
		return
	}
	w.addAll(w.Model.CompareListing(w.Clock.Peek(), desc, items), "dispatch/listing")
	for _, dm := range w.pub {
		if dm.id != "" {
			continue
		}
		for _, it := range items {
			if string(it.Payload) == dm.token && it.Target == dm.target.URL && w.byID[it.ID] == nil {
				dm.id = it.ID
				w.byID[it.ID] = dm
				break
			}
		}
	}
	w.Res.States = append(w.Res.States, w.Model.Hash())
}

// Publish enqueues one message per target of the route (as ingress would).
func (w *DispatchWorld) Publish(routeIdx int, extraHeader bool, variant ...string) {
	r := &w.Spec.Routes[routeIdx%len(w.Spec.Routes)]
	w.Res.Ops++
	for i := range r.Deliver {
		w.tokSeq++
		tok := fmt.Sprintf("tok-%03d", w.tokSeq)
		hdr := map[string]string{"X-Tok": tok}
		if extraHeader {
			hdr["X-Extra"] = "a,b"
		}
		if len(variant) > 0 && variant[0] == "lower" {
			// a header name as an operator's publish may store it: not canonical
			hdr["x-tenant-token"] = "tenant-of-" + tok
		}
		if len(variant) > 0 && variant[0] == "orphan" {
			// a message for a target the route no longer has (left behind by a
			// configuration change): the dispatcher keeps putting it back with a
			// short delay; it is nobody's delivery and takes no part in the rules
			// about deliveries - but it shares micro-batches with messages that do
			if i > 0 {
				break
			}
			err := w.Node.Store.Enqueue(queue.Envelope{Route: r.Path, Target: "https://gone.example/orphan", Payload: []byte("orphan-" + tok), Headers: hdr})
			w.Res.logf("publish orphan %s -> %s (target not configured): %s", tok, r.Path, errShort(err))
			w.Res.probe("dispatch.orphan_published")
			if w.orphanToks == nil {
				w.orphanToks = map[string]bool{}
			}
			w.orphanToks["orphan-"+tok] = true
			break
		}
		dm := &dmsg{token: tok, route: r, target: &r.Deliver[i]}
		w.pub = append(w.pub, dm)
		err := w.Node.Store.Enqueue(queue.Envelope{Route: r.Path, Target: r.Deliver[i].URL, Payload: []byte(tok), Headers: hdr})
		w.Res.logf("publish %s -> %s %s: %s", tok, r.Path, r.Deliver[i].URL, errShort(err))
		dm.acked = err == nil && !w.diskDead()
		if w.diskDead() {
			return
		}
	}
	w.sync("publish")
}

// orphan: a message whose target its route does not have.
func (w *DispatchWorld) orphan(x *Msg) bool {
	for i := range w.Spec.Routes {
		if w.Spec.Routes[i].Path != x.Route {
			continue
		}
		for _, d := range w.Spec.Routes[i].Deliver {
			if d.URL == x.Target {
				return false
			}
		}
	}
	return true
}

// Tick lets one dispatcher worker run one cycle (dequeue, deliver, settle).
func (w *DispatchWorld) Tick(k int) bool {
	ds := w.Sched.Daemons(w.group)
	if len(ds) == 0 {
		return false
	}
	t := ds[k%len(ds)]
	before := w.Res.Probes["dispatch.dequeue.nonempty"]
	w.Res.Ops++
	kind := w.Sched.RunDaemonCycle(t)
	if kind == "trouble" {
		w.Res.Trouble = w.Sched.Trouble
		return false
	}
	w.Res.logf("tick %s -> %s", t.Name, kind)
	if w.diskDead() {
		w.Res.probe("dispatch.crash.inside_cycle")
		return false // the process died inside the cycle: judged after the restart
	}
	w.sync("tick " + t.Name)
	return w.Res.Probes["dispatch.dequeue.nonempty"] > before
}

// Drain: faults stop, the clock is advanced to the next due instant again and
// again: every message must end delivered or dead (bounded liveness, C06c).
func (w *DispatchWorld) Drain() {
	// step budget: every message may need retry.max+1 deliveries, each preceded
	// by one clock jump
	budget := 100
	for _, dm := range w.pub {
		budget += 3 * (w.retryFor(dm.target).Max + 2)
	}
	for _, x := range w.Model.Msgs {
		if w.orphan(x) {
			budget *= 3 // an orphan is due again every second and takes a turn in most rounds
			break
		}
	}
	if budget > 20000 {
		budget = 20000
	}
	for round := 0; round < budget; round++ {
		progress := false
		ds := w.Sched.Daemons(w.group)
		for i := range ds {
			if w.Tick(i) {
				progress = true
			}
			if w.Res.Trouble != "" {
				return
			}
		}
		if progress {
			continue
		}
		// nothing ready: jump to the earliest instant at which something becomes due
		var next time.Time
		for _, x := range w.Model.Msgs {
			if (x.State == queue.StateQueued || x.State == queue.StateLeased) && !w.orphan(x) {
				if next.IsZero() || x.NextRunAt.Before(next) {
					next = x.NextRunAt
				}
			}
		}
		if next.IsZero() {
			return
		}
		now := w.Clock.Peek()
		d := next.Sub(now) + 10*time.Millisecond
		if d < 10*time.Millisecond {
			d = 10 * time.Millisecond
		}
		w.Clock.Advance(d)
		w.Res.logf("drain: advance %s", d)
	}
	for _, x := range w.Model.Msgs {
		if (x.State == queue.StateQueued || x.State == queue.StateLeased) && !w.orphan(x) {
			w.add("C06.liveness", "C06,C05", "dispatch/drain", "message %s is still %s (attempt %d) after %d dispatcher rounds with faults off", x.ID, x.State, x.Attempt, budget)
			return
		}
	}
}

// ---- crash mode ---------------------------------------------------------------

func (w *DispatchWorld) diskOps() int { return w.opsBase + w.Disk.Ops }

func (w *DispatchWorld) decideDisk(kind, path string, n int) DiskDecision {
	idx := w.diskOps() - 1
	for i := range w.prog.Faults {
		f := &w.prog.Faults[i]
		if w.fired[i] || f.Site != "disk" || f.AfterStep > w.stepIdx || f.AfterStep >= len(w.stepStart) {
			continue
		}
		if idx != w.stepStart[f.AfterStep]+f.Hit {
			continue
		}
		w.fired[i] = true
		w.Res.fault(f.Action)
		w.Res.logf("  fault %s at disk op %d (%s %s %d bytes)", f.Action, idx, kind, filepath.Base(path), n)
		w.pendingF = f
		return DiskCrash
	}
	return DiskContinue
}

// crashRestart: the node died. A fresh node starts on the post-crash image; the
// queue content is taken from the listing, under the conservation rule: a
// message that was accepted is still there (queued, leased by the dead process,
// dead-lettered, or delivered), or its target answered one of its deliveries
// with 2xx. Nothing else may appear.
func (w *DispatchWorld) crashRestart() {
	r := w.Res
	w.restarts++
	w.crashedAt = true
	action, seed := "crash.kill", int64(0)
	if w.pendingF != nil {
		action, seed = w.pendingF.Action, w.pendingF.ImgSeed
	}
	w.pendingF = nil
	old, oldNode := w.Disk, w.Node
	old.Kill()
	w.opsBase += old.Ops
	w.Sched.MarkDead(w.group)
	dir := filepath.Join(w.base, fmt.Sprintf("db%d", w.restarts))
	if err := os.MkdirAll(dir, 0o755); err != nil {
		r.Trouble = err.Error()
		return
	}
	pend := old.PendingWrites()
	applied, dropped, torn, err := old.Image(dir, action == "crash.powerloss", seed)
	if err != nil {
		r.Trouble = "image: " + err.Error()
		return
	}
	old.Release()
	go func() { _ = oldNode.CloseStore() }()
	r.logf("restart #%d after %s: %d unsynced writes (%d applied, %d dropped, %d torn)", w.restarts, action, pend, applied, dropped, torn)
	w.Node = nil
	w.byLease, w.inDeliver, w.taskItems = map[string]*dmsg{}, map[string]*Task{}, map[*Task][]queue.Envelope{}
	w.expect, w.leaseUntil, w.stalled, w.faulted = map[string]*settlement{}, map[string]time.Time{}, map[*Task]bool{}, map[string]map[string]int{}
	w.cur = map[*Task]*delivery{}
	if err := w.startNode(dir, true); err != nil {
		w.add("C01.reopen", "C01", "dispatch/restart", "the node does not start on the database after a crash: %v", err)
		return
	}
	w.Disk.Decide = w.decideDisk
	if st, ok := w.Node.RawStore.(*queue.SQLiteStore); ok {
		var res string
		if err := st.VerifDB().QueryRowContext(context.Background(), "PRAGMA integrity_check;").Scan(&res); err != nil || res != "ok" {
			w.add("C01.integrity", "C01", "dispatch/restart", "PRAGMA integrity_check after restart: %q err=%v", res, err)
		}
	}
	items, err := w.Listing()
	if err != nil {
		w.add("C01.list", "C01", "dispatch/restart", "listing failed after restart: %v", err)
		return
	}
	have := map[string]*queue.Envelope{}
	for i := range items {
		have[items[i].ID] = &items[i]
	}
	// learn ids of messages that were stored but not yet seen by a listing
	for _, dm := range w.pub {
		if dm.id != "" {
			continue
		}
		for _, it := range items {
			if string(it.Payload) == dm.token && it.Target == dm.target.URL && w.byID[it.ID] == nil {
				dm.id = it.ID
				w.byID[it.ID] = dm
				break
			}
		}
	}
	for _, dm := range w.pub {
		it := have[dm.id]
		switch {
		case dm.id == "" && dm.done == "":
			// the enqueue itself was never acknowledged to anybody in this world
			// (published directly through the store): absent is admissible only
			// if the call had not returned; Publish marks acknowledged ones
			if dm.acked {
				w.add("C01.push.lost", "C01", "dispatch/restart", "message %s was stored before the crash and is gone after the restart", dm.token)
			}
		case it == nil:
			// gone: legal only as the effect of an ack after a delivery the target accepted
			if dm.ok2xx == 0 && !dm.wasGone {
				w.add("C01.push.lost", "C01,C05,C06", "dispatch/restart", "message %s is gone after the restart although no delivery of it was answered with 2xx (an accepted message was lost without being delivered or dead-lettered)", dm.token)
			}
			dm.wasGone = true
		default:
			if string(it.Payload) != dm.token || it.Route != dm.route.Path || it.Target != dm.target.URL {
				w.add("C07.restart.changed", "C07,C01", "dispatch/restart", "message %s changed across the restart: route %s target %s payload %q", dm.token, it.Route, it.Target, trunc(it.Payload))
			}
		}
		dm.conflict = true // deliveries before the crash may repeat after it
	}
	seenOrphan := map[string]bool{}
	for _, it := range items {
		if w.byID[it.ID] == nil && it.Target == "https://gone.example/orphan" && w.orphanToks[string(it.Payload)] && !seenOrphan[string(it.Payload)] {
			// an orphan this world stored itself (once)
			seenOrphan[string(it.Payload)] = true
			continue
		}
		if w.byID[it.ID] == nil {
			w.add("C02.appeared", "C02,C01", "dispatch/restart", "after the restart the queue holds message %s (%s) that nobody enqueued", it.ID, it.State)
		}
	}
	// the model continues from what the restart left
	w.Model = NewModel(sysQConfig(w.Spec))
	now := w.Clock.Peek()
	for _, it := range items {
		w.Model.Enqueue(now, []queue.Envelope{{ID: it.ID, Route: it.Route, Target: it.Target, Payload: it.Payload, Headers: it.Headers, Trace: it.Trace, ReceivedAt: it.ReceivedAt, NextRunAt: it.NextRunAt, State: it.State}}, false, 0, nil)
		if x := w.Model.Msgs[it.ID]; x != nil {
			x.Attempt, x.DeadReason = it.Attempt, it.DeadReason
			if it.State == queue.StateLeased {
				x.LeaseID = "lease-of-the-dead-process-" + it.ID
				x.LeaseUntil = it.NextRunAt
				if !it.LeaseUntil.IsZero() {
					x.LeaseUntil = it.LeaseUntil
				}
			}
		}
	}
	w.Res.States = append(w.Res.States, w.Model.Hash())
}

type dispatchSys struct {
	Spec    *SysSpec               `json:"spec"`
	Scripts map[string][]NetAction `json:"scripts"` // by target host
	DNS     map[string][][]string  `json:"dns,omitempty"`
	DNSFail []string               `json:"dns_fail,omitempty"`
	Seed    int64                  `json:"seed"`
	Crash   bool                   `json:"crash,omitempty"` // SQLite on the simulated disk, faults from the program's fault plan
}

func RunDispatchProgram(p *Program) *Result {
	var sys dispatchSys
	if err := json.Unmarshal(p.Sys, &sys); err != nil || sys.Spec == nil {
		return &Result{Trouble: "bad sys spec"}
	}
	spec := *sys.Spec
	armed := map[string]bool{}
	for _, s := range p.Steps {
		for _, a := range s.Armed {
			armed[a] = true
		}
	}
	var arm func(string) bool
	if len(armed) > 0 {
		arm = func(l string) bool { return armed[l] }
	}
	if sys.Crash {
		spec.Backend = "sqlite"
	}
	w, err := NewDispatchWorld(&spec, p.Offset, sys.Seed, arm, sys.Crash)
	if err != nil {
		return &Result{Trouble: "node: " + err.Error() + "\n" + spec.Render()}
	}
	defer w.Close()
	w.prog, w.fired = p, map[int]bool{}
	if sys.Crash {
		w.Disk.Decide = w.decideDisk
	}
	hosts := make([]string, 0, len(sys.Scripts))
	for h := range sys.Scripts {
		hosts = append(hosts, h)
	}
	sort.Strings(hosts)
	for _, h := range hosts {
		w.Net.AddEndpoint(&Endpoint{Host: h, Script: sys.Scripts[h]})
	}
	for h, answers := range sys.DNS {
		var lists [][]net.IP
		for _, a := range answers {
			var l []net.IP
			for _, s := range a {
				l = append(l, net.ParseIP(s))
			}
			lists = append(lists, l)
		}
		w.Net.SetAnswers(h, lists...)
	}
	for _, h := range sys.DNSFail {
		w.Net.SetDNSFail(h, true)
	}
	start := w.Clock.Peek()
	w.Res.logf("dispatch world backend=%s routes=%d workers=%d", spec.Backend, len(spec.Routes), w.Node.Workers)
	for i, s := range p.Steps {
		w.stepIdx = i
		if sys.Crash {
			w.stepStart = append(w.stepStart, w.diskOps())
		}
		switch s.Op {
		case "crash":
			if sys.Crash {
				w.Res.Ops++
				w.Disk.Kill()
				w.pendingF = &Fault{Action: "crash." + s.Image, ImgSeed: s.ImgSeed}
				w.Res.fault("crash." + s.Image)
			}
		case "publish":
			w.Publish(s.Batch, s.Pad, s.Reason)
		case "tick":
			w.Tick(s.Batch)
		case "advance":
			w.Clock.Advance(s.D)
			w.Res.Ops++
			w.Res.logf("advance %s", s.D)
		case "interleave":
			w.InterleaveStep(s)
		case "storefault":
			// the next Batch calls of store method Reason made by the dispatcher fail
			w.storeFaults[s.Reason] += s.Batch
			w.Res.Ops++
			w.Res.logf("store fault armed: next %d call(s) of %s fail", s.Batch, s.Reason)
		default:
			w.Res.Trouble = "dispatch world: unknown op " + s.Op
		}
		if w.Res.Trouble != "" {
			return w.Res
		}
		for k := 0; sys.Crash && w.diskDead(); k++ {
			if k == 5 {
				w.Res.Trouble = "more than 5 consecutive crashes during recovery"
				return w.Res
			}
			w.crashRestart()
			if w.Res.Trouble != "" || w.Node == nil {
				return w.Res
			}
		}
	}
	if sys.Crash {
		// faults stop
		for i := range p.Faults {
			w.fired[i] = true
		}
		w.stepIdx = len(p.Steps)
		w.stepStart = append(w.stepStart, w.diskOps())
	}
	for _, h := range sys.DNSFail {
		w.Net.SetDNSFail(h, false)
	}
	for m := range w.storeFaults {
		delete(w.storeFaults, m)
	}
	w.Drain()
	// one attempt record per delivery, none missing
	if w.Res.Trouble == "" && w.crashedAt {
		// conservation across crashes, at the end: whatever is no longer in the
		// queue was delivered (2xx) - dead letters stay listed
		for _, dm := range w.pub {
			if dm.id == "" || !dm.acked {
				continue
			}
			if x := w.Model.Msgs[dm.id]; x == nil && dm.ok2xx == 0 && !dm.wasGone {
				w.add("C01.push.lost", "C01,C05,C06", "dispatch/end", "message %s is no longer in the queue although no delivery of it was answered with 2xx", dm.token)
			}
		}
	}
	if w.Res.Trouble == "" && !w.crashedAt {
		for _, dm := range w.pub {
			if dm.id == "" {
				continue
			}
			if x := w.Model.Msgs[dm.id]; x != nil && x.State != queue.StateDead && x.State != queue.StateDelivered {
				continue
			}
			resp, _ := w.Node.RawStore.ListAttempts(queue.AttemptListRequest{EventID: dm.id, Limit: 1000})
			if len(resp.Items) != dm.records {
				w.add("C06.attempts.count", "C06", "dispatch/attempts", "message %s: %d attempt records stored, %d deliveries made", dm.token, len(resp.Items), dm.records)
			}
		}
	}
	w.Res.SimTime = int64(w.Clock.Peek().Sub(start))
	w.Res.Inter = w.interTrace
	return w.Res
}

// InterleaveStep: every dispatcher worker runs one cycle, interleaved at the
// armed points (net.request / net.response / store points) according to the
// step's choice list. After the Batch-th choice the clock is advanced by D
// (a stalled worker: its lease may expire while it is parked mid-delivery).
func (w *DispatchWorld) InterleaveStep(s Step) {
	w.Res.Ops++
	active := map[*Task]bool{}
	for _, t := range w.Sched.Daemons(w.group) {
		active[t] = true
	}
	ci := 0
	var trace []string
	for len(active) > 0 {
		if w.diskDead() {
			w.Res.probe("dispatch.crash.inside_cycle")
			break // the process died: judged after the restart
		}
		var run []*Task
		for t := range active {
			run = append(run, t)
		}
		sort.Slice(run, func(i, j int) bool { return run[i].Name < run[j].Name })
		c := 0
		if ci < len(s.Sched) {
			c = s.Sched[ci]
		}
		if s.D > 0 && ci == s.Batch {
			w.Clock.Advance(s.D)
			trace = append(trace, "stall:"+s.D.String())
			w.Res.probe("dispatch.stall")
			for t := range active {
				w.stalled[t] = true
			}
		}
		ci++
		t := run[c%len(run)]
		from := t.ParkedAt()
		k := w.Sched.Step(t)
		trace = append(trace, t.Name+"@"+from)
		switch k {
		case "parked":
			if t.Idle {
				delete(active, t)
			}
		case "trouble":
			w.Res.Trouble = w.Sched.Trouble
			return
		default:
			delete(active, t)
		}
		if ci > 400 {
			w.Res.Trouble = "interleave: more than 400 scheduling decisions"
			return
		}
	}
	w.interTrace += strings.Join(trace, " ") + ";"
	w.Res.logf("interleave %s", strings.Join(trace, " "))
	if w.diskDead() {
		return
	}
	w.sync("interleave")
}

// debugErr: the error text of an attempt record, shown only when VERIF_DEBUG_ERR is set
// (error texts are not part of the event log: they are not compared and may differ between backends).
func debugErr(s string) string {
	if os.Getenv("VERIF_DEBUG_ERR") == "" || s == "" {
		return ""
	}
	return " err=" + s
}
