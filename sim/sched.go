package sim

// Cooperative scheduler. A task is a real goroutine that runs only between a
// resume and its next park; exactly one task runs at a time and the controller
// waits for "parked", "done" or "crashed" before it draws the next choice, so
// an execution is a pure function of the choice sequence.

import (
	"fmt"
	"runtime"
	"sort"
	"strconv"
	"strings"
	"sync"
	"time"

	"github.com/nuetzliches/hookaido/internal/verifhook"
)

type taskState int

const (
	tNew taskState = iota
	tRunning
	tParked
	tDone
	tDead    // belongs to a crashed node: never resumed again
	tBlocked // running but waiting for something another task holds (mutex, pooled connection)
)

type Task struct {
	ID        int
	Name      string
	Group     string // node incarnation the task belongs to
	state     taskState
	parkedAt  string
	resume    chan struct{}
	Result    any
	Daemon    bool // persistent worker (dispatcher): parks between cycles
	Idle      bool // daemon parked at its idle point (nothing in flight)
	goid      uint64
	blockedAt string // wait state and call chain where the task was judged blocked
}

func (t *Task) ParkedAt() string { return t.parkedAt }

// Blocked: the task was judged to wait for something another task has to do.
func (s *Sched) Blocked(t *Task) bool {
	s.mu.Lock()
	defer s.mu.Unlock()
	return t.state == tBlocked
}
func (t *Task) Done() bool   { return t.state == tDone }
func (t *Task) Parked() bool { return t.state == tParked }

type schedEvent struct {
	task *Task
	kind string // parked | done | crashed | adopted
}

type Sched struct {
	mu       sync.Mutex
	byGoid   map[uint64]*Task
	tasks    []*Task
	events   chan schedEvent
	nextID   int
	armed    func(label string) bool // which points park
	Trace    []string                // interleaving trace: "task@label"
	dead     map[string]bool         // crashed groups
	Watchdog time.Duration
	// AdoptGroup: group assigned to goroutines adopted on first contact
	// (dispatcher workers started by the product).
	AdoptGroup string
	adoptSeq   int
	Trouble    string
	Switches   int
	// DetectBlocked: a resumed task that stops in a Go wait state (mutex,
	// channel, select) instead of reaching a point is reported as "blocked";
	// it stays out of the runnable set until it parks by itself.
	DetectBlocked bool
	Steps         int                         // scheduling decisions taken so far (history stamps)
	OnDecision    func(step int)              // called by InterleaveBlocking before each decision
	OnRelease     func(t *Task, label string) // called by InterleaveBlocking before the chosen task continues from label
	Blocks        int
	Halt          bool // set by OnDecision: stop driving the tasks (the process they belong to died)
}

func NewSched() *Sched {
	s := &Sched{byGoid: map[uint64]*Task{}, events: make(chan schedEvent, 64), dead: map[string]bool{}, Watchdog: 120 * time.Second}
	return s
}

func goid() uint64 {
	var buf [64]byte
	n := runtime.Stack(buf[:], false)
	// "goroutine 123 ["
	f := strings.Fields(string(buf[:n]))
	if len(f) < 2 {
		return 0
	}
	id, _ := strconv.ParseUint(f[1], 10, 64)
	return id
}

// Install routes verifhook.Point to this scheduler.
func (s *Sched) Install() { verifhook.SetPoint(s.Point) }
func UninstallSched()     { verifhook.SetPoint(nil) }

// SetArmed decides which point labels park (others cost one lookup).
func (s *Sched) SetArmed(f func(label string) bool) {
	s.mu.Lock()
	s.armed = f
	s.mu.Unlock()
}

// Current returns the task of the calling goroutine (nil: not a task).
func (s *Sched) Current() *Task {
	g := goid()
	s.mu.Lock()
	t := s.byGoid[g]
	s.mu.Unlock()
	return t
}

// Go creates a task; it starts running when first resumed by Step.
func (s *Sched) Go(name, group string, fn func() any) *Task {
	s.mu.Lock()
	s.nextID++
	t := &Task{ID: s.nextID, Name: name, Group: group, resume: make(chan struct{}, 1), state: tParked, parkedAt: "start"}
	s.tasks = append(s.tasks, t)
	s.mu.Unlock()
	go func() {
		g := goid()
		s.mu.Lock()
		s.byGoid[g] = t
		t.goid = g
		s.mu.Unlock()
		<-t.resume
		res := fn()
		s.mu.Lock()
		t.Result = res
		t.state = tDone
		delete(s.byGoid, g)
		s.mu.Unlock()
		s.events <- schedEvent{t, "done"}
	}()
	return t
}

// Point is the P6 hook (instrumented product code): park if the label is armed
// and the caller is a task.
func (s *Sched) Point(label string) {
	s.mu.Lock()
	armed := s.armed
	s.mu.Unlock()
	if armed == nil || !armed(label) {
		return
	}
	s.Park(label)
}

// Park suspends the calling task at label until the controller resumes it.
// Goroutines that are not tasks pass through (or are adopted if AdoptGroup set
// and adopt is true).
func (s *Sched) Park(label string) { s.park(label, false, false) }

// ParkIdle is the idle point of a daemon (dispatcher worker about to poll).
func (s *Sched) ParkIdle(label string) { s.park(label, true, true) }

func (s *Sched) park(label string, adopt bool, idle bool) { s.parkNamed(label, "worker", adopt, idle) }

// parkNamed: as park; an adopted goroutine is named prefix#k (k-th with that
// prefix), so that workers are identified by what they serve, not by the order
// in which the Go runtime happened to start them.
func (s *Sched) parkNamed(label, prefix string, adopt bool, idle bool) {
	g := goid()
	s.mu.Lock()
	t := s.byGoid[g]
	if t == nil {
		if !adopt || s.AdoptGroup == "" {
			s.mu.Unlock()
			return
		}
		s.nextID++
		s.adoptSeq++
		k := 0
		for _, o := range s.tasks {
			if o.Group == s.AdoptGroup && strings.HasPrefix(o.Name, prefix+"#") {
				k++
			}
		}
		t = &Task{ID: s.nextID, Name: fmt.Sprintf("%s#%d", prefix, k), Group: s.AdoptGroup, resume: make(chan struct{}, 1), Daemon: true}
		s.tasks = append(s.tasks, t)
		s.byGoid[g] = t
	}
	dead := s.dead[t.Group]
	t.parkedAt = label
	t.Idle = idle
	if dead {
		t.state = tDead
	} else {
		t.state = tParked
	}
	s.mu.Unlock()
	if dead {
		s.events <- schedEvent{t, "parked"}
		select {} // a task of a crashed process never runs again
	}
	s.events <- schedEvent{t, "parked"}
	<-t.resume
}

// Crashed is called from a fault site inside a running task: the node dies here.
// The calling task keeps running (its I/O fails from now on) but the controller
// is told and stops waiting for it.
func (s *Sched) Crashed(group string) {
	s.mu.Lock()
	s.dead[group] = true
	t := s.byGoid[goid()]
	s.mu.Unlock()
	s.events <- schedEvent{t, "crashed"}
}

func (s *Sched) MarkDead(group string) {
	s.mu.Lock()
	s.dead[group] = true
	for _, t := range s.tasks {
		if t.Group == group && t.state == tParked {
			t.state = tDead
		}
	}
	s.mu.Unlock()
}

func (s *Sched) IsDead(group string) bool {
	s.mu.Lock()
	defer s.mu.Unlock()
	return s.dead[group]
}

// Step resumes t and waits until it parks, finishes or its node crashes.
// Returns the event kind. Events of other goroutines (adopted workers parking
// for the first time) are absorbed.
func (s *Sched) Step(t *Task) string {
	s.mu.Lock()
	if t.state != tParked {
		s.mu.Unlock()
		s.Trouble = fmt.Sprintf("sched: step of task %s in state %d", t.Name, t.state)
		return "trouble"
	}
	t.state = tRunning
	s.Steps++
	s.Trace = append(s.Trace, t.Name+"@"+t.parkedAt)
	s.mu.Unlock()
	t.resume <- struct{}{}
	return s.wait(t)
}

// goroutineWaitState returns the bracketed state of goroutine g in a full
// stack dump ("semacquire", "select", "running", ...), "" if it is gone, and
// the call chain it sits in (function names only).
func goroutineWaitState(g uint64) (string, string) {
	n, size := 0, 256<<10
	var buf []byte
	for {
		buf = make([]byte, size)
		n = runtime.Stack(buf, true)
		if n < size || size >= 64<<20 {
			break
		}
		size *= 4 // the dump was cut off: the goroutine looked for may be beyond the end
	}
	dump := string(buf[:n])
	key := "goroutine " + strconv.FormatUint(g, 10) + " ["
	i := strings.Index(dump, key)
	for i > 0 && dump[i-1] != '\n' {
		j := strings.Index(dump[i+1:], key)
		if j < 0 {
			return "", ""
		}
		i += 1 + j
	}
	if i < 0 {
		return "", ""
	}
	rest := dump[i+len(key):]
	end := strings.IndexAny(rest, ",]")
	if end < 0 {
		return "", ""
	}
	state := rest[:end]
	block := rest
	if k := strings.Index(rest, "\n\n"); k >= 0 {
		block = rest[:k]
	}
	var chain []string
	for _, ln := range strings.Split(block, "\n")[1:] {
		if strings.HasPrefix(ln, "\t") || ln == "" {
			continue
		}
		if k := strings.LastIndex(ln, "("); k > 0 {
			ln = ln[:k]
		}
		chain = append(chain, ln)
	}
	return state, strings.Join(chain, "<")
}

func isBlockedState(st string) bool {
	switch st {
	case "semacquire", "sync.Mutex.Lock", "sync.RWMutex.Lock", "sync.RWMutex.RLock", "sync.Cond.Wait",
		"sync.WaitGroup.Wait", "select", "chan receive", "chan send", "select (no cases)":
		return true
	}
	return false
}

// stablyBlocked: t's goroutine sits in the same wait state at the same place on
// consecutive looks. The place is remembered: as long as the task is found
// there again it is still waiting for the same thing.
func (s *Sched) stablyBlocked(t *Task) bool {
	first, firstSig := "", ""
	for i := 0; i < 5; i++ {
		ws, sig := goroutineWaitState(t.goid)
		if !isBlockedState(ws) || (first != "" && (ws != first || sig != firstSig)) {
			return false
		}
		first, firstSig = ws, sig
		s.mu.Lock()
		st := t.state
		s.mu.Unlock()
		if st == tParked || st == tDone || st == tDead {
			return false
		}
		time.Sleep(150 * time.Microsecond)
	}
	t.blockedAt = first + "|" + firstSig
	return true
}

// settleBlocked waits until every blocked task is either still blocked (in a Go
// wait state) or has parked / finished by itself: a task woken by the step that
// just ended runs to its next point before the next decision is taken.
func (s *Sched) settleBlocked(tasks []*Task) bool {
	deadline := time.Now().Add(s.Watchdog)
	for _, t := range tasks {
		for {
			s.mu.Lock()
			st := t.state
			s.mu.Unlock()
			if st != tBlocked {
				break
			}
			// Had the step that just ended woken it, the runtime would have made
			// it runnable at once, so one look is enough as long as it is found
			// exactly where it was judged blocked. Anywhere else (it woke and
			// waits a moment for a lock on its way to the next point) needs the
			// full judgement again.
			if ws, sig := goroutineWaitState(t.goid); isBlockedState(ws) {
				s.mu.Lock()
				st = t.state
				s.mu.Unlock()
				if st != tBlocked {
					break // it parked in the meantime (a parked task also sits in a wait state)
				}
				if ws+"|"+sig == t.blockedAt || s.stablyBlocked(t) {
					break
				}
			}
			if time.Now().After(deadline) {
				s.Trouble = fmt.Sprintf("watchdog: blocked task %s neither parked nor blocked again within %s", t.Name, s.Watchdog)
				return false
			}
			time.Sleep(20 * time.Microsecond)
		}
	}
	return true
}

func (s *Sched) wait(t *Task) string {
	timer := time.NewTimer(s.Watchdog)
	defer timer.Stop()
	// Looking at the goroutine stops the world; on a loaded machine frequent
	// looks starve the very task they wait for, so the interval backs off.
	var poll <-chan time.Time
	interval := 400 * time.Microsecond
	var pt *time.Timer
	if s.DetectBlocked {
		pt = time.NewTimer(interval)
		defer pt.Stop()
		poll = pt.C
	}
	for {
		select {
		case <-poll:
			if interval < 50*time.Millisecond {
				interval = interval * 3 / 2
			}
			pt.Reset(interval)
			if s.stablyBlocked(t) {
				s.mu.Lock()
				if t.state == tRunning {
					t.state = tBlocked
					s.Blocks++
					s.mu.Unlock()
					return "blocked"
				}
				s.mu.Unlock()
			}
		case ev := <-s.events:
			if ev.kind == "crashed" {
				return "crashed"
			}
			if ev.task == t {
				// an event may be stale (sent by an earlier park whose state
				// the controller had already observed): trust the state
				s.mu.Lock()
				st := t.state
				s.mu.Unlock()
				switch st {
				case tRunning:
					continue
				case tDone:
					return "done"
				default:
					return "parked"
				}
			}
			// another goroutine (adopted worker) reached its first park: fine
		case <-timer.C:
			s.Trouble = fmt.Sprintf("watchdog: task %s (resumed at %s) neither parked nor finished within %s", t.Name, t.parkedAt, s.Watchdog)
			return "trouble"
		}
	}
}

// WaitAdopted waits until n goroutines have been adopted and parked (dispatcher
// workers after PushDispatcher.Start).
func (s *Sched) WaitAdopted(group string, n int) bool {
	deadline := time.Now().Add(s.Watchdog)
	for {
		s.mu.Lock()
		c := 0
		for _, t := range s.tasks {
			if t.Group == group && t.Daemon && (t.state == tParked || t.state == tDead) {
				c++
			}
		}
		s.mu.Unlock()
		if c >= n {
			// drain their "parked" events
			for {
				select {
				case <-s.events:
					continue
				default:
				}
				break
			}
			return true
		}
		if time.Now().After(deadline) {
			s.Trouble = fmt.Sprintf("watchdog: only %d of %d workers of %s appeared", c, n, group)
			return false
		}
		time.Sleep(50 * time.Microsecond)
	}
}

// Runnable lists parked, live tasks in id order.
func (s *Sched) Runnable(group string) []*Task {
	s.mu.Lock()
	defer s.mu.Unlock()
	var out []*Task
	for _, t := range s.tasks {
		if t.state == tParked && (group == "" || t.Group == group) && !s.dead[t.Group] {
			out = append(out, t)
		}
	}
	return out
}

// Daemons lists the live daemon tasks of a group in id order.
func (s *Sched) Daemons(group string) []*Task {
	s.mu.Lock()
	defer s.mu.Unlock()
	var out []*Task
	for _, t := range s.tasks {
		if t.Daemon && t.Group == group && t.state == tParked && !s.dead[t.Group] {
			out = append(out, t)
		}
	}
	sort.Slice(out, func(i, j int) bool { return out[i].Name < out[j].Name })
	return out
}

// RunToEnd drives one task alone until it is done (sequential operation).
func (s *Sched) RunToEnd(t *Task) string {
	for {
		switch k := s.Step(t); k {
		case "parked":
			s.mu.Lock()
			dead := t.state == tDead
			s.mu.Unlock()
			if dead {
				return "crashed" // the task's process died under it
			}
			continue
		default:
			return k
		}
	}
}

// RunDaemonCycle resumes a daemon until it is back at its idle point.
func (s *Sched) RunDaemonCycle(t *Task) string {
	for {
		k := s.Step(t)
		if k != "parked" {
			return k
		}
		s.mu.Lock()
		dead := t.state == tDead
		s.mu.Unlock()
		if dead {
			return "crashed"
		}
		if t.Idle {
			return "idle"
		}
	}
}

// Interleave drives a set of tasks to completion, choosing who runs next from
// `choices` (index modulo runnable count; 0 when exhausted).
func (s *Sched) Interleave(tasks []*Task, choices []int) string {
	ci := 0
	last := -1
	for {
		var run []*Task
		for _, t := range tasks {
			if t.state == tParked && !s.IsDead(t.Group) {
				run = append(run, t)
			}
		}
		if len(run) == 0 {
			return "done"
		}
		c := 0
		if ci < len(choices) {
			c = choices[ci]
			ci++
		}
		if c < 0 {
			c = -c
		}
		t := run[c%len(run)]
		if last != -1 && last != t.ID {
			s.Switches++
		}
		last = t.ID
		switch k := s.Step(t); k {
		case "parked", "done":
		default:
			return k
		}
	}
}

// InterleaveBlocking drives tasks to completion like Interleave, for code whose
// tasks may block on one another between points (DetectBlocked). Returns
// "done", "deadlock" (unfinished tasks, none runnable) or a trouble kind.
func (s *Sched) InterleaveBlocking(tasks []*Task, choices []int) string {
	ci := 0
	last := -1
	for {
		if !s.settleBlocked(tasks) {
			return "trouble"
		}
		if s.OnDecision != nil {
			s.OnDecision(s.Steps)
		}
		if s.Halt {
			return "halted"
		}
		var run []*Task
		blocked := 0
		s.mu.Lock()
		for _, t := range tasks {
			switch t.state {
			case tParked:
				run = append(run, t)
			case tBlocked:
				blocked++
			}
		}
		s.mu.Unlock()
		if len(run) == 0 {
			if blocked > 0 {
				// Every unfinished task waits. Before that is called a deadlock it
				// has to last: a wait for a goroutine that is not a task (connection
				// pool, a starved helper on a loaded machine) ends by itself.
				if s.waitForProgress(tasks, 3*time.Second) {
					continue
				}
				return "deadlock"
			}
			return "done"
		}
		c := 0
		if ci < len(choices) {
			c = choices[ci]
			ci++
		}
		if c < 0 {
			c = -c
		}
		t := run[c%len(run)]
		if last != -1 && last != t.ID {
			s.Switches++
		}
		last = t.ID
		if s.OnRelease != nil {
			s.OnRelease(t, t.parkedAt)
		}
		switch k := s.Step(t); k {
		case "parked", "done", "blocked":
		default:
			return k
		}
	}
}

// waitForProgress: true as soon as one of the blocked tasks has parked or
// finished by itself, false if all of them are still blocked after d.
func (s *Sched) waitForProgress(tasks []*Task, d time.Duration) bool {
	deadline := time.Now().Add(d)
	count := func() (parked, blocked int) {
		s.mu.Lock()
		defer s.mu.Unlock()
		for _, t := range tasks {
			switch t.state {
			case tParked:
				parked++
			case tBlocked:
				blocked++
			}
		}
		return
	}
	_, blocked0 := count()
	for time.Now().Before(deadline) {
		parked, blocked := count()
		moved := parked > 0 || blocked < blocked0
		if moved {
			return true
		}
		for _, t := range tasks {
			s.mu.Lock()
			st := t.state
			s.mu.Unlock()
			if st != tBlocked {
				continue
			}
			if ws, _ := goroutineWaitState(t.goid); !isBlockedState(ws) {
				// it is on its way: let it reach its next point
				time.Sleep(200 * time.Microsecond)
			}
		}
		time.Sleep(2 * time.Millisecond)
	}
	return false
}

func (s *Sched) TraceString() string { return strings.Join(s.Trace, " ") }
