package sim

// Reload worlds (C18 a, b).
//  reloadfail: a reload that cannot be read / parsed / compiled, whose secrets
//              cannot be loaded, or that needs a restart must change nothing:
//              a fixed probe set of requests gives identical outcomes before
//              and after (the node is its own twin).
//  atomic:     requests interleaved with a successful reload at every statement
//              of reloadConfig and of the ingress handler; each request's
//              outcome must equal its outcome under the old configuration
//              (measured on the quiescent node before) or under the new one
//              (measured on the quiescent node after) - never a mixture.

import (
	"encoding/json"
	"fmt"
	"net/http"
	"os"
	"sort"
	"strings"
	"time"

	"github.com/nuetzliches/hookaido/internal/queue"
	"pgregory.net/rapid"
)

type outcome struct {
	Status int
	Allow  string
	Enq    []string // route|target (payload is the probe's own token)
	Pull   string   // status of the pull probe, if any
}

func (o outcome) String() string {
	return fmt.Sprintf("status=%d allow=%q enqueued=%v", o.Status, o.Allow, o.Enq)
}

func (o outcome) equal(p outcome) bool { return o.String() == p.String() }

type reloadSys struct {
	Spec    *SysSpec  `json:"spec"`
	NewSpec *SysSpec  `json:"new_spec,omitempty"`
	Probes  []ReqSpec `json:"probes"`
	Bad     string    `json:"bad,omitempty"` // unreadable parse compile secret restart
	Sched   []int     `json:"sched,omitempty"`
	// PullProbes: dequeues on the Pull API (endpoint path, bearer token) served
	// while the reload runs.
	PullProbes []PullProbe `json:"pull_probes,omitempty"`
}

type PullProbe struct {
	Path  string `json:"path"`
	Token string `json:"token"`
}

// pullOutcome: status and the routes of the items handed out.
func (w *ReloadWorld) pullOutcome(resp *Resp) string {
	var body struct {
		Items []struct {
			Route string `json:"route"`
		} `json:"items"`
	}
	_ = json.Unmarshal(resp.Body, &body)
	seen := map[string]bool{}
	var routes []string
	for _, it := range body.Items {
		if !seen[it.Route] {
			seen[it.Route] = true
			routes = append(routes, it.Route)
		}
	}
	sort.Strings(routes)
	return fmt.Sprintf("status=%d items_of=%v", resp.Status, routes)
}

func (w *ReloadWorld) pullProbeReq(pp PullProbe) *http.Request {
	req, err := NewRequest("POST", pp.Path+"/dequeue", "pull.internal", "10.9.9.9:5", []KV{{"Authorization", "Bearer " + pp.Token}, {"Content-Type", "application/json"}}, []byte(`{"batch":1,"lease_ttl":"1s"}`))
	if err != nil {
		return nil
	}
	return req
}

// stock makes sure every route of the given configurations holds a ready
// message (stored directly, not through ingress), so that a dequeue shows which
// route it was served from.
func (w *ReloadWorld) stock(n int, specs ...*SysSpec) {
	seen := map[string]bool{}
	for _, sp := range specs {
		for i := range sp.Routes {
			r := sp.Routes[i].Path
			if seen[r] {
				continue
			}
			seen[r] = true
			for k := 0; k < n; k++ {
				w.tok++
				_ = w.Node.RawStore.Enqueue(queue.Envelope{ID: fmt.Sprintf("stock-%04d", w.tok), Route: r, Target: "pull", Payload: []byte("stock")})
			}
		}
	}
}

type ReloadWorld struct {
	*IngressWorld
	seen map[string]bool
	tok  int
}

// probe sends one request (with a fresh body token) and returns its outcome.
func (w *ReloadWorld) probeStart(rs ReqSpec) (*Task, string) {
	w.tok++
	tok := fmt.Sprintf("probe-%04d", w.tok)
	rs.Body = []byte(tok)
	req, err := w.buildRequest(&rs)
	if err != nil {
		return nil, tok
	}
	return w.Start("probe", w.Ingress, req), tok
}

func (w *ReloadWorld) outcomeOf(resp *Resp, tok string) outcome {
	o := outcome{Status: resp.Status, Allow: strings.Join(sortedCopy(splitAllow(resp.Header.Get("Allow"))), ",")}
	items, _ := w.Listing()
	for _, it := range items {
		if string(it.Payload) == tok {
			o.Enq = append(o.Enq, it.Route+"|"+it.Target)
		}
	}
	sort.Strings(o.Enq)
	return o
}

// apiProbes: non-mutating authorised/unauthorised calls on the Pull and Admin
// APIs with the old and the new tokens (an ack of an unknown lease is 409 when
// authorised and 401 when not; it never changes the queue).
func (w *ReloadWorld) apiProbes(specs ...*SysSpec) string {
	var out []string
	seen := map[string]bool{}
	for _, sp := range specs {
		for ri := range sp.Routes {
			r := &sp.Routes[ri]
			if r.PullPath == "" {
				continue
			}
			toks := append(append([]string(nil), sp.PullTokens...), r.PullTokens...)
			for _, tok := range toks {
				key := r.PullPath + "|" + tok
				if seen[key] {
					continue
				}
				seen[key] = true
				req, err := NewRequest("POST", r.PullPath+"/ack", "pull.internal", "10.9.9.9:5", []KV{{"Authorization", "Bearer " + tok}, {"Content-Type", "application/json"}}, []byte(`{"lease_id":"lease_probe_unknown"}`))
				if err != nil {
					continue
				}
				resp := w.Do("pullprobe", w.Pull, req)
				out = append(out, fmt.Sprintf("pull %s tok=%s -> %d", r.PullPath, tok, resp.Status))
			}
		}
		for _, tok := range append([]string{"no-admin-token"}, sp.AdminTokens...) {
			key := "admin|" + tok
			if seen[key] {
				continue
			}
			seen[key] = true
			req, err := NewRequest("GET", "/messages?limit=1", "admin.internal", "127.0.0.1:9", []KV{{"Authorization", "Bearer " + tok}}, nil)
			if err != nil {
				continue
			}
			resp := w.Do("adminprobe", w.Admin, req)
			out = append(out, fmt.Sprintf("admin tok=%s -> %d", tok, resp.Status))
		}
	}
	sort.Strings(out)
	return strings.Join(out, "; ")
}

func (w *ReloadWorld) probe(rs ReqSpec) outcome {
	t, tok := w.probeStart(rs)
	if t == nil {
		return outcome{Status: -1}
	}
	k := w.Sched.RunToEnd(t)
	resp := w.finish(t, k)
	w.Res.Ops++
	return w.outcomeOf(resp, tok)
}

func (w *ReloadWorld) addV(rule, loc, format string, a ...any) {
	props := "C18"
	if strings.HasPrefix(loc, "reloadfail/secret") {
		props = "C18,C08" // secrets that cannot be loaded: authentication has to fail closed
	}
	if strings.HasSuffix(loc, "/api") {
		props += ",C11" // the Pull / Admin API honoured a token list that is not the running configuration's
	}
	v := viol(rule, props, format, a...)
	v.Loc = loc
	w.Res.Violations = append(w.Res.Violations, v)
	w.Res.logf("  VIOLATION %s", v.String())
}

func badConfigText(spec *SysSpec, kind string) (string, bool) {
	good := spec.Render()
	switch kind {
	case "parse":
		return good + "\n\"/broken\" {{{ pull\n", true
	case "compile":
		// duplicate route path: rejected by Compile
		return good + fmt.Sprintf("\n%q {\n  pull { path \"/pull/dup\" }\n}\n", spec.Routes[0].Path), true
	case "secret":
		return good + "\n\"/needs-secret\" {\n  auth hmac \"file:/nonexistent/verif/secret\"\n  pull { path \"/pull/needs-secret\" }\n}\n", true
	case "secret_version":
		// a named secret version whose value cannot be loaded, referenced by a new route
		if strings.Contains(good, "secrets {") {
			return badConfigText(spec, "secret")
		}
		return "secrets {\n  secret \"V9\" {\n    value \"file:/nonexistent/verif/secret-version\"\n    valid_from \"2029-01-01T00:00:00Z\"\n  }\n}\n" + good +
			"\n\"/needs-version\" {\n  auth hmac secret_ref \"V9\"\n  pull { path \"/pull/needs-version\" }\n}\n", true
	case "secret_pull_token":
		// a route-level pull token that cannot be loaded
		return good + "\n\"/needs-token\" {\n  pull {\n    path \"/pull/needs-token\"\n    auth token \"file:/nonexistent/verif/pull-token\"\n  }\n}\n", true
	case "restart":
		return strings.Replace(good, "listen 127.0.0.1:0", "listen 127.0.0.9:0", 1), true
	}
	return "", false
}

func RunReloadFailProgram(p *Program) *Result {
	var sys reloadSys
	if err := json.Unmarshal(p.Sys, &sys); err != nil || sys.Spec == nil {
		return &Result{Trouble: "bad sys spec"}
	}
	spec := *sys.Spec
	iw, err := NewIngressWorld(&spec, p.Offset, SysOptions{Seed: 1})
	if err != nil {
		return &Result{Trouble: "node: " + err.Error() + "\n" + spec.Render()}
	}
	w := &ReloadWorld{IngressWorld: iw}
	defer w.Close()
	w.Res.logf("reloadfail world bad=%s routes=%d probes=%d", sys.Bad, len(spec.Routes), len(sys.Probes))
	var before []outcome
	for _, pr := range sys.Probes {
		before = append(before, w.probe(pr))
	}
	// the file the operator saved differs from the running configuration in
	// routes / authentication / tokens AND cannot be applied
	edited := &spec
	if sys.NewSpec != nil {
		edited = sys.NewSpec
	}
	apiBefore := w.apiProbes(&spec, edited)
	old, _ := os.ReadFile(w.cfgPath)
	switch sys.Bad {
	case "unreadable":
		_ = os.Remove(w.cfgPath)
		_ = os.Mkdir(w.cfgPath, 0o755) // a directory: ReadFile fails
	default:
		text, ok := badConfigText(edited, sys.Bad)
		if !ok {
			w.Res.Trouble = "unknown bad kind " + sys.Bad
			return w.Res
		}
		_ = os.WriteFile(w.cfgPath, []byte(text), 0o600)
	}
	t := w.Sched.Go("reload", w.group, func() any { return w.Node.Reload("verif") })
	if k := w.Sched.RunToEnd(t); k != "done" {
		w.Res.Trouble = "reload task: " + k
		return w.Res
	}
	ok := t.Result.(bool)
	w.Res.Ops++
	w.Res.fault("reload.bad_" + sys.Bad)
	w.Res.logf("reload (%s) -> ok=%v", sys.Bad, ok)
	if ok {
		w.addV("C18.badreload.applied", "reloadfail/"+sys.Bad, "a reload whose file is %s reported success", sys.Bad)
	}
	for i, pr := range sys.Probes {
		after := w.probe(pr)
		if !after.equal(before[i]) {
			w.addV("C18.badreload.changed", "reloadfail/"+sys.Bad, "after a failed reload (%s) probe %d (%s %s) behaves differently: before {%s}, after {%s}", sys.Bad, i, pr.Method, pr.Path, before[i], after)
		}
	}
	if apiAfter := w.apiProbes(&spec, edited); apiAfter != apiBefore {
		w.addV("C18.badreload.changed", "reloadfail/"+sys.Bad+"/api", "after a failed reload (%s) the Pull/Admin API authorisation changed: before {%s}, after {%s}", sys.Bad, apiBefore, apiAfter)
	}
	// a second, good reload of the original file must still work (the failed one left no debris)
	if sys.Bad == "unreadable" {
		_ = os.Remove(w.cfgPath)
	}
	_ = os.WriteFile(w.cfgPath, old, 0o600)
	t2 := w.Sched.Go("reload", w.group, func() any { return w.Node.Reload("verif") })
	if k := w.Sched.RunToEnd(t2); k == "done" && !t2.Result.(bool) {
		w.addV("C18.badreload.stuck", "reloadfail/"+sys.Bad, "after a failed reload (%s) the unchanged original file no longer reloads", sys.Bad)
	}
	return w.Res
}

func RunAtomicProgram(p *Program) *Result {
	var sys reloadSys
	if err := json.Unmarshal(p.Sys, &sys); err != nil || sys.Spec == nil || sys.NewSpec == nil {
		return &Result{Trouble: "bad sys spec"}
	}
	spec := *sys.Spec
	arm := func(l string) bool {
		return strings.HasPrefix(l, "app.reloadConfig#") || strings.HasPrefix(l, "ingress.Server.ServeHTTP#") || strings.HasPrefix(l, "pullapi.Server.ServeHTTP#")
	}
	iw, err := NewIngressWorld(&spec, p.Offset, SysOptions{Seed: 1, ArmPoints: arm})
	if err != nil {
		return &Result{Trouble: "node: " + err.Error() + "\n" + spec.Render()}
	}
	w := &ReloadWorld{IngressWorld: iw}
	defer w.Close()
	w.Res.logf("atomic world routes=%d -> %d probes=%d", len(spec.Routes), len(sys.NewSpec.Routes), len(sys.Probes))
	// outcomes under the old configuration (quiescent)
	var oldOut []outcome
	for _, pr := range sys.Probes {
		oldOut = append(oldOut, w.probe(pr))
	}
	var oldPull []string
	for _, pp := range sys.PullProbes {
		w.stock(1, &spec, sys.NewSpec)
		if req := w.pullProbeReq(pp); req != nil {
			oldPull = append(oldPull, w.pullOutcome(w.Do("pullprobe", w.Pull, req)))
		} else {
			oldPull = append(oldPull, "unbuildable")
		}
	}
	w.Clock.Advance(2 * time.Second)                   // the probes' leases (1s) are over
	w.stock(len(sys.PullProbes)+1, &spec, sys.NewSpec) // each probe takes one message (batch 1)
	if err := os.WriteFile(w.cfgPath, []byte(sys.NewSpec.Render()), 0o600); err != nil {
		w.Res.Trouble = err.Error()
		return w.Res
	}
	// the reload and the requests, interleaved
	reload := w.Sched.Go("reload", w.group, func() any { return w.Node.Reload("verif") })
	tasks := []*Task{reload}
	var toks []string
	for _, pr := range sys.Probes {
		t, tok := w.probeStart(pr)
		toks = append(toks, tok)
		if t != nil {
			tasks = append(tasks, t)
		}
	}
	nIngress := len(tasks) - 1
	var pullTasks []*Task
	for _, pp := range sys.PullProbes {
		var t *Task
		if req := w.pullProbeReq(pp); req != nil {
			t = w.Start("pullprobe", w.Pull, req)
			tasks = append(tasks, t)
		}
		pullTasks = append(pullTasks, t)
	}
	if k := w.Sched.Interleave(tasks, sys.Sched); k != "done" {
		w.Res.Trouble = "interleave: " + k + " " + w.Sched.Trouble
		return w.Res
	}
	w.Res.Ops += len(tasks)
	w.Res.Inter = w.Sched.TraceString()
	if ok, _ := reload.Result.(bool); !ok {
		// the generator meant the pair to be reloadable; if the product says
		// "restart required" there is no switch to check
		w.Res.probe("atomic.reload.refused")
		w.Res.logf("reload refused; nothing to check")
		return w.Res
	}
	w.Res.probe("atomic.reload.ok")
	var mid []outcome
	for i, t := range tasks[1 : 1+nIngress] {
		resp := w.finish(t, "done")
		mid = append(mid, w.outcomeOf(resp, toks[i]))
	}
	var midPull []string
	for _, t := range pullTasks {
		if t == nil {
			midPull = append(midPull, "unbuildable")
			continue
		}
		midPull = append(midPull, w.pullOutcome(w.finish(t, "done")))
	}
	// outcomes under the new configuration (quiescent)
	var newOut []outcome
	for _, pr := range sys.Probes {
		newOut = append(newOut, w.probe(pr))
	}
	mixed := 0
	for i := range mid {
		w.Res.logf("probe %d: old {%s} during {%s} new {%s}", i, oldOut[i], mid[i], newOut[i])
		if !oldOut[i].equal(newOut[i]) {
			w.Res.probe("atomic.probe.old_new_differ")
		}
		if !mid[i].equal(oldOut[i]) && !mid[i].equal(newOut[i]) {
			mixed++
			pr := sys.Probes[i]
			w.addV("C18.atomic.mixture", "atomic/ingress", "request %s %s served during a reload got {%s}: neither the old configuration's outcome {%s} nor the new one's {%s}", pr.Method, pr.Path, mid[i], oldOut[i], newOut[i])
		}
	}
	// pull probes under the new configuration (quiescent), then the verdict
	for i, pp := range sys.PullProbes {
		w.Clock.Advance(2 * time.Second)
		w.stock(1, &spec, sys.NewSpec)
		newPull := "unbuildable"
		if req := w.pullProbeReq(pp); req != nil {
			newPull = w.pullOutcome(w.Do("pullprobe", w.Pull, req))
		}
		w.Res.logf("pull probe %d (%s tok=%s): old {%s} during {%s} new {%s}", i, pp.Path, pp.Token, oldPull[i], midPull[i], newPull)
		if oldPull[i] != newPull {
			w.Res.probe("atomic.pullprobe.old_new_differ")
			w.Res.probe("atomic.probe.old_new_differ")
		}
		if midPull[i] != oldPull[i] && midPull[i] != newPull {
			w.Res.probe("atomic.pullprobe.mixture")
			v := viol("C18.atomic.mixture", "C18,C11", "dequeue on %s with token %q served during a reload got {%s}: neither the old configuration's outcome {%s} nor the new one's {%s}", pp.Path, pp.Token, midPull[i], oldPull[i], newPull)
			v.Loc = "atomic/pull"
			w.Res.Violations = append(w.Res.Violations, v)
			w.Res.logf("  VIOLATION %s", v.String())
		}
	}
	if w.Sched.Switches > 0 {
		w.Res.probe("atomic.task_switches")
	}
	return w.Res
}

// ---- generators -------------------------------------------------------------

func genStatelessSpec(t *rapid.T) *SysSpec {
	prof := IngressProfile{Auth: []string{"none", "basic", "basic"}, Match: true, Channels: false, MaxRoutes: 4, Backends: []string{"memory", "sqlite"}, Limits: false}
	s := genSysSpec(t, prof)
	for i := range s.Routes {
		// pull routes only: a change of deliver targets needs a restart
		s.Routes[i].Deliver = nil
		if s.Routes[i].PullPath == "" {
			s.Routes[i].PullPath = fmt.Sprintf("/pull/r%d", i)
		}
	}
	return s
}

func genProbes(t *rapid.T, specs ...*SysSpec) []ReqSpec {
	n := rapid.IntRange(1, 4).Draw(t, "nprobes")
	var out []ReqSpec
	prof := IngressProfile{}
	for i := 0; i < n; i++ {
		sp := specs[rapid.IntRange(0, len(specs)-1).Draw(t, "probe_spec")]
		rs := genReq(t, sp, prof)
		rs.Sign = nil
		rs.Fwd = nil
		out = append(out, *rs)
	}
	return out
}

func GenReloadFailProgram(t *rapid.T) *Program {
	p := &Program{World: "reloadfail"}
	spec := genStatelessSpec(t)
	if rapid.Bool().Draw(t, "admin_tokens") {
		spec.AdminTokens = []string{"admin-tok-old"}
	}
	ns := genChangedSpec(t, spec)
	sys := reloadSys{Spec: spec, NewSpec: ns, Bad: rapid.SampledFrom([]string{"unreadable", "parse", "compile", "secret", "secret_version", "secret_pull_token", "restart", "restart"}).Draw(t, "bad")}
	sys.Probes = genProbes(t, spec, ns)
	p.Sys, _ = json.Marshal(sys)
	return p
}

// genChangedSpec: a copy of spec that differs in what requests read (routes,
// authentication, limits) and in API tokens.
func genChangedSpec(t *rapid.T, spec *SysSpec) *SysSpec {
	b, _ := json.Marshal(spec)
	var ns SysSpec
	_ = json.Unmarshal(b, &ns)
	for i := 0; i < rapid.IntRange(1, 3).Draw(t, "nchanges"); i++ {
		ri := rapid.IntRange(0, len(ns.Routes)-1).Draw(t, "ri")
		switch rapid.IntRange(0, 8).Draw(t, "change") {
		case 6: // pull token rotated
			ns.PullTokens = []string{"pull-token-rotated"}
		case 7: // admin token rotated / introduced
			ns.AdminTokens = []string{"admin-tok-new"}
		case 8: // per-route pull token
			ns.Routes[ri].PullTokens = []string{"route-tok-new"}
		case 0: // auth on/off
			if len(ns.Routes[ri].Basic) > 0 {
				ns.Routes[ri].Basic = nil
			} else {
				ns.Routes[ri].Basic = []KV{{"alice", "s3cret"}}
			}
		case 1: // route removed (keep at least one)
			if len(ns.Routes) > 1 {
				ns.Routes = append(ns.Routes[:ri], ns.Routes[ri+1:]...)
			}
		case 2: // route added in front
			nr := RouteSpec{Path: "/added", PullPath: "/pull/added"}
			if rapid.Bool().Draw(t, "added_auth") {
				nr.Basic = []KV{{"alice", "s3cret"}}
			}
			ns.Routes = append([]RouteSpec{nr}, ns.Routes...)
		case 3: // path moved: same position, other path
			ns.Routes[ri].Path = ns.Routes[ri].Path + "2"
		case 4: // match changed
			ns.Routes[ri].Match = &MatchSpec{Methods: []string{"PUT"}}
		case 5: // body limit
			ns.Routes[ri].MaxBody = 4
		}
		if len(ns.Routes) > 1 && rapid.IntRange(0, 3).Draw(t, "swap_pull") == 0 {
			// two routes exchange their pull endpoints; each keeps its own tokens
			a, b := 0, len(ns.Routes)-1
			ns.Routes[a].PullPath, ns.Routes[b].PullPath = ns.Routes[b].PullPath, ns.Routes[a].PullPath
			if len(ns.Routes[a].PullTokens) == 0 {
				ns.Routes[a].PullTokens = []string{"route-tok-a"}
			}
			if len(ns.Routes[b].PullTokens) == 0 {
				ns.Routes[b].PullTokens = []string{"route-tok-b"}
			}
		}
	}
	return &ns
}

func GenAtomicProgram(t *rapid.T) *Program {
	p := &Program{World: "atomic"}
	spec := genStatelessSpec(t)
	nsp := genChangedSpec(t, spec)
	ns := *nsp
	sys := reloadSys{Spec: spec, NewSpec: &ns}
	sys.Probes = genProbes(t, spec, &ns)
	// dequeues with the tokens and endpoint paths of both configurations
	var paths, toks []string
	for _, sp := range []*SysSpec{spec, &ns} {
		toks = append(toks, sp.PullTokens...)
		for i := range sp.Routes {
			if sp.Routes[i].PullPath != "" {
				paths = append(paths, sp.Routes[i].PullPath)
			}
			toks = append(toks, sp.Routes[i].PullTokens...)
		}
	}
	if len(paths) > 0 && len(toks) > 0 {
		for k := rapid.IntRange(0, 3).Draw(t, "npull"); k > 0; k-- {
			sys.PullProbes = append(sys.PullProbes, PullProbe{Path: rapid.SampledFrom(paths).Draw(t, "pp.path"), Token: rapid.SampledFrom(toks).Draw(t, "pp.tok")})
		}
	}
	type seg struct{ who, n int }
	segs := rapid.SliceOfN(rapid.Custom(func(t *rapid.T) seg {
		return seg{rapid.IntRange(0, 5).Draw(t, "who"), rapid.SampledFrom([]int{1, 1, 2, 3, 5, 8, 13, 21, 34}).Draw(t, "len")}
	}), 0, 12).Draw(t, "sched")
	for _, sg := range segs {
		for i := 0; i < sg.n && len(sys.Sched) < 240; i++ {
			sys.Sched = append(sys.Sched, sg.who)
		}
	}
	p.Sys, _ = json.Marshal(sys)
	return p
}

func init() {
	Register(&CheckSpec{
		Prop: "C18", World: "reloadfail",
		Gen: GenReloadFailProgram, Run: RunReloadFailProgram,
		NonTrivial: func(p *Program, r *Result) bool { return r.Ops >= 3 },
		Rule:       "failed reload (unreadable file, parse error, compile error, unloadable inline secret / named secret version / route pull token, restart-required change) on generated stateless configurations; a fixed probe set of requests must give identical outcomes (status, Allow, enqueued route/target set) before and after, and the original file must still reload; non-trivial = >=1 probe before and after; distinct = (fault kind) x config shapes",
		RealStub:   sysRealStub,
		Quick:      2500, Thorough: 60000,
	})
	Register(&CheckSpec{
		Prop: "C11", World: "reloadfail",
		Gen:  GenReloadFailProgram, Run: RunReloadFailProgram,
		NonTrivial: func(p *Program, r *Result) bool { return r.Ops >= 3 },
		Rule:       "refused reloads (unreadable file, parse / compile error, unloadable secret, restart required) whose new configuration changes pull / admin token lists: afterwards the Pull and Admin APIs honour exactly the token lists of the configuration that is still running; non-trivial = >=1 probe before and after",
		RealStub:   sysRealStub,
		Quick:      1200, Thorough: 30000,
	})
	Register(&CheckSpec{
		Prop: "C08", World: "reloadfail",
		Gen: func(t *rapid.T) *Program {
			p := GenReloadFailProgram(t)
			var sys reloadSys
			if json.Unmarshal(p.Sys, &sys) == nil {
				sys.Bad = rapid.SampledFrom([]string{"secret", "secret_version", "secret_pull_token"}).Draw(t, "bad.secret")
				p.Sys, _ = json.Marshal(sys)
			}
			return p
		}, Run: RunReloadFailProgram,
		NonTrivial: func(p *Program, r *Result) bool { return r.Ops >= 3 },
		Rule:       "fail-closed under secret-loading faults: a reload whose inline secret, named secret version or route pull token cannot be loaded must be refused, and the probe requests (signed, unsigned, with and without credentials) and the Pull/Admin API authorisation behave exactly as before; non-trivial = >=1 probe before and after",
		RealStub:   sysRealStub,
		Quick:      1200, Thorough: 30000,
	})
	Register(&CheckSpec{
		Prop: "C18", World: "atomic",
		Gen: GenAtomicProgram, Run: RunAtomicProgram,
		NonTrivial: func(p *Program, r *Result) bool {
			return r.Probes["atomic.reload.ok"] > 0 && r.Probes["atomic.probe.old_new_differ"] > 0
		},
		Rule:     "successful reload between old/new configurations that differ in what a request reads in separate steps (auth on/off, route removed/added/moved, match, limits), interleaved with in-flight requests at every statement of reloadConfig and ingress ServeHTTP (PRNG-chosen schedule); twin oracle: outcome under the old configuration (quiescent node before) or under the new one (quiescent node after); non-trivial = reload applied and at least one probe distinguishes old from new; distinct = distinct interleavings",
		RealStub: sysRealStub,
		Quick:    3000, Thorough: 80000,
	})
}
