package sim

import (
	"encoding/hex"
	"fmt"
	"os"
	"path/filepath"
	"regexp"
	"sort"
	"strings"
	"time"

	"github.com/nuetzliches/hookaido/internal/queue"
)

// Result of executing one program.
type Result struct {
	Violations []Violation    `json:"violations,omitempty"`
	Trouble    string         `json:"trouble,omitempty"` // harness trouble: never a violation
	Events     []string       `json:"events,omitempty"`
	Ops        int            `json:"ops"`
	SimTime    int64          `json:"sim_ns"`
	Faults     map[string]int `json:"faults,omitempty"`
	Probes     map[string]int `json:"probes,omitempty"`
	States     []uint64       `json:"-"`
	Inter      string         `json:"-"` // interleaving fingerprint
	Reduced    *Program       `json:"-"` // a smaller program the world proposes for the same violation
	ids        map[string]string
}

func (r *Result) probe(name string) {
	if r.Probes == nil {
		r.Probes = map[string]int{}
	}
	r.Probes[name]++
}

func (r *Result) fault(name string) {
	if r.Faults == nil {
		r.Faults = map[string]int{}
	}
	r.Faults[name]++
}

var rawIDPattern = regexp.MustCompile(`(lease|evt|att)_[0-9a-f]{16}`)

// logf appends an event line. Ids generated at run time (crypto/rand, SQLite
// randomblob) that a world did not already rename are replaced by stable names
// in order of first appearance, so that two executions of one program produce
// byte-identical logs.
func (r *Result) logf(format string, a ...any) {
	line := fmt.Sprintf(format, a...)
	if strings.Contains(line, "_") {
		line = rawIDPattern.ReplaceAllStringFunc(line, func(raw string) string {
			if r.ids == nil {
				r.ids = map[string]string{}
			}
			if n, ok := r.ids[raw]; ok {
				return n
			}
			n := fmt.Sprintf("%s#%d", raw[:strings.IndexByte(raw, '_')], len(r.ids)+1)
			r.ids[raw] = n
			return n
		})
	}
	if strings.Contains(line, ".tmp-") {
		// os.CreateTemp names: renamed by first appearance
		line = tmpNamePattern.ReplaceAllStringFunc(line, func(raw string) string {
			if r.ids == nil {
				r.ids = map[string]string{}
			}
			if n, ok := r.ids[raw]; ok {
				return n
			}
			n := fmt.Sprintf(".tmp-N%d", len(r.ids)+1)
			r.ids[raw] = n
			return n
		})
	}
	r.Events = append(r.Events, fmt.Sprintf("%04d ", len(r.Events))+line)
}

var tmpNamePattern = regexp.MustCompile(`\.tmp-[0-9]+`)

// namer renames run-time generated ids by first appearance so that event logs
// of two executions of one program are byte-identical.
type namer struct {
	m map[string]string
	n map[string]int
}

func newNamer() *namer { return &namer{m: map[string]string{}, n: map[string]int{}} }

func (nm *namer) name(kind, raw string) string {
	if raw == "" {
		return `""`
	}
	if v, ok := nm.m[raw]; ok {
		return v
	}
	nm.n[kind]++
	v := fmt.Sprintf("%s%d", kind, nm.n[kind])
	nm.m[raw] = v
	return v
}

var scratchRoot string

// ScratchDir returns a fresh private directory (tmpfs when available).
func ScratchDir(prefix string) (string, error) {
	if scratchRoot == "" {
		root := os.Getenv("VERIF_SCRATCH")
		if root == "" {
			if st, err := os.Stat("/dev/shm"); err == nil && st.IsDir() {
				root = "/dev/shm"
			} else {
				root = os.TempDir()
			}
		}
		d, err := os.MkdirTemp(root, "hooksim-")
		if err != nil {
			return "", err
		}
		scratchRoot = d
	}
	return os.MkdirTemp(scratchRoot, prefix)
}

func CleanupScratch() {
	if scratchRoot != "" {
		_ = os.RemoveAll(scratchRoot)
		scratchRoot = ""
	}
}

// StoreWorld (W-store): one queue.Store driven sequentially against the model.
type StoreWorld struct {
	Cfg      QConfig
	Clock    *Clock
	Store    queue.Store
	Model    *Model
	Res      *Result
	names    *namer
	attempts []queue.DeliveryAttempt // reference list of recorded delivery attempts
	attSeq   int
	leases   []string // every lease id issued, in order
	ids      []string // every message id ever stored, in order
	dir      string
	dbPath   string
	closeFn  func() error
	inner    queue.Store // the unwrapped store (verif exports)
	// when set, every violation is kept; otherwise the world stops at the first
	StopAtFirst    bool
	step           int
	loc            string
	last           string
	stepViolations int
	// fault / crash support (W-crash)
	Disk                *Disk
	assume              func(m *Model) // applies the operation in flight "as if it succeeded"
	alt                 *Model         // variant in which an in-doubt operation took effect
	faultInStep         bool           // an injected (non-crash) disk fault fired during this step
	phase               string         // "op" while the main store call runs, "observe" afterwards
	doubtful            bool
	variants            []*Model         // further admissible pictures for the next observation (restart)
	lingering           []func(m *Model) // operations that failed after a disk fault and may surface at the next recovery
	keepLingering       bool
	nextID, nextPayload int
	batchFirstID        string
	batchDoubt          int // size of the batch whose outcome is (still) in doubt
}

func openStore(cfg QConfig, clock *Clock, dbPath string) (queue.Store, func() error, error) {
	switch cfg.Backend {
	case "memory":
		opts := []queue.MemoryOption{
			queue.WithNowFunc(clock.Now),
			queue.WithQueueLimits(cfg.MaxDepth, cfg.DropPolicy),
			queue.WithQueueRetention(cfg.RetentionMaxAge, cfg.PruneInterval),
			queue.WithDeliveredRetention(cfg.DeliveredMaxAge),
			queue.WithDLQRetention(cfg.DLQMaxAge, cfg.DLQMaxDepth),
		}
		if cfg.MemPressureItems > 0 || cfg.MemPressureBytes > 0 {
			opts = append(opts, queue.WithMemoryPressureLimits(cfg.MemPressureItems, cfg.MemPressureBytes))
		}
		return queue.NewMemoryStore(opts...), func() error { return nil }, nil
	case "sqlite":
		s, err := queue.NewSQLiteStore(dbPath,
			queue.WithSQLitePollInterval(cfg.PollInterval),
			queue.WithSQLiteNowFunc(clock.Now),
			queue.WithSQLiteCheckpointInterval(0),
			queue.WithSQLiteQueueLimits(cfg.MaxDepth, cfg.DropPolicy),
			queue.WithSQLiteRetention(cfg.RetentionMaxAge, cfg.PruneInterval),
			queue.WithSQLiteDeliveredRetention(cfg.DeliveredMaxAge),
			queue.WithSQLiteDLQRetention(cfg.DLQMaxAge, cfg.DLQMaxDepth),
		)
		if err != nil {
			return nil, nil, err
		}
		return s, s.Close, nil
	}
	return nil, nil, fmt.Errorf("unknown backend %q", cfg.Backend)
}

func NewStoreWorld(p *Program) (*StoreWorld, error) {
	w := &StoreWorld{Cfg: p.Store, Res: &Result{}, names: newNamer()}
	w.Clock = NewClock(Epoch.Add(time.Duration(p.Offset)))
	w.Clock.Install()
	w.Model = NewModel(p.Store)
	if p.Store.Backend == "sqlite" {
		d, err := ScratchDir("sw-")
		if err != nil {
			return nil, err
		}
		w.dir = d
		w.dbPath = filepath.Join(d, "q.db")
	}
	st, cl, err := openStore(p.Store, w.Clock, w.dbPath)
	if err != nil {
		return nil, err
	}
	w.Store, w.closeFn = st, cl
	return w, nil
}

func (w *StoreWorld) Close() {
	if w.closeFn != nil {
		_ = w.closeFn()
		w.closeFn = nil
	}
	if w.dir != "" {
		_ = os.RemoveAll(w.dir)
	}
}

func (w *StoreWorld) leaseByRef(ref int) string {
	switch {
	case ref == -1:
		return ""
	case ref == -2:
		return "   "
	case ref <= -3 || len(w.leases) == 0:
		return fmt.Sprintf("lease_unknown%04d", -ref)
	}
	return w.leases[len(w.leases)-1-ref%len(w.leases)]
}

func (w *StoreWorld) idByRef(ref int) string {
	switch {
	case ref == -1:
		return ""
	case ref == -3 && len(w.ids) > 0:
		return "  " + w.ids[0] + " "
	case ref < 0 || len(w.ids) == 0:
		return fmt.Sprintf("evt_unknown%04d", -ref)
	}
	return w.ids[len(w.ids)-1-ref%len(w.ids)]
}

// decodeOddHeaders: a value "@hex:..." stands for those bytes (programs are kept as JSON, which cannot
// carry a string that is not UTF-8; an HTTP field value can: obs-text, RFC 9110 5.5).
func decodeOddHeaders(h map[string]string) map[string]string {
	for k, v := range h {
		if strings.HasPrefix(v, "@hex:") {
			if b, err := hex.DecodeString(v[5:]); err == nil {
				h[k] = string(b)
			}
		}
	}
	return h
}

func (w *StoreWorld) env(now time.Time, e EnvSpec) queue.Envelope {
	env := queue.Envelope{ID: e.ID, Route: e.Route, Target: e.Target, Payload: e.Payload, Attempt: e.Attempt}
	switch {
	case e.DupOfRef != nil && len(w.ids) > 0:
		env.ID = w.idByRef(*e.DupOfRef)
	case e.DupOfRef != nil || e.ID == "new":
		w.nextID++
		env.ID = fmt.Sprintf("m%03d", w.nextID)
	case e.ID == "same0":
		env.ID = w.batchFirstID
	}
	if env.Payload == nil {
		w.nextPayload++
		env.Payload = []byte(fmt.Sprintf("p%04d", w.nextPayload))
	}
	if len(e.Headers) > 0 {
		env.Headers = decodeOddHeaders(cloneMap(e.Headers))
	}
	if e.RecvOff != nil {
		env.ReceivedAt = now.Add(time.Duration(*e.RecvOff))
	}
	if e.NextOff != nil {
		env.NextRunAt = now.Add(time.Duration(*e.NextOff))
	}
	return env
}

func (w *StoreWorld) filter(f *FilterSpec) queue.MessageManageFilterRequest {
	req := queue.MessageManageFilterRequest{Route: f.Route, Target: f.Target, State: queue.State(f.State), Limit: f.Limit, PreviewOnly: f.Preview}
	if f.BeforeRef != nil {
		if x := w.Model.Msgs[w.idByRef(*f.BeforeRef)]; x != nil {
			req.Before = x.ReceivedAt.Add(time.Duration(f.BeforeOff))
		} else {
			req.Before = w.Clock.Peek().Add(time.Duration(f.BeforeOff))
		}
	}
	return req
}

// sum logs the one-line summary of a step (call, arguments, result) and keeps
// it for cross-backend comparison (W-diff).
func (w *StoreWorld) sum(format string, a ...any) {
	w.last = fmt.Sprintf(format, a...)
	w.Res.logf("%s", w.last)
}

func errShort(err error) string { return strings.SplitN(errClass(err), ":", 2)[0] }

func (w *StoreWorld) add(vs []Violation) {
	for _, v := range vs {
		if v.Loc == "" {
			v.Loc = w.loc
		}
		w.Res.Violations = append(w.Res.Violations, v)
		w.stepViolations++
		w.Res.logf("  VIOLATION %s", v.String())
	}
}

func (w *StoreWorld) observe(opDesc string, refused bool) {
	now := w.Clock.Peek()
	w.phase = "observe"
	resp, err := w.Store.ListMessages(queue.MessageListRequest{Order: queue.MessageOrderAsc, Limit: 1000, IncludePayload: true, IncludeHeaders: true, IncludeTrace: true})
	if err != nil {
		w.add([]Violation{viol("C02.list.error", "C02", "ListMessages failed after %s: %v", opDesc, err)})
		return
	}
	if w.alt != nil || len(w.variants) > 0 {
		// one or more operations are in doubt (answer lost in a crash, or failed
		// after an injected disk fault): each took effect completely or not at
		// all. Judge the listing against every admissible picture.
		cands := []*Model{w.Model.Clone()}
		if w.alt != nil {
			cands = append(cands, w.alt)
		}
		cands = append(cands, w.variants...)
		hadAlt := w.alt != nil
		w.alt, w.variants = nil, nil
		var first []Violation
		chosen := -1
		for i, c := range cands {
			vs := c.CompareListing(now, opDesc, resp.Items)
			if i == 0 {
				first = vs
			}
			if os.Getenv("VERIF_DEBUG_CANDS") != "" {
				for _, v := range vs {
					fmt.Fprintf(os.Stderr, "cand %d: %s\n", i, v.String())
				}
			}
			if len(vs) == 0 {
				chosen = i
				break
			}
		}
		switch {
		case chosen == 0:
			w.Model = cands[0]
			w.Res.probe("indoubt.notapplied")
			if hadAlt && w.doubtful && w.assume != nil && w.keepLingering {
				// failed after a disk fault and not visible now: a later crash
				// recovery may still surface it (frames are in the WAL)
				w.lingering = append(w.lingering, w.assume)
			}
		case chosen > 0:
			w.Model = cands[chosen]
			w.Res.probe("indoubt.applied")
		default:
			w.Model = cands[0]
			for i := range first {
				first[i].Detail += " [operation(s) in doubt; no admissible picture explains the listing]"
				if w.batchDoubt > 1 {
					// a batch that failed or whose answer was lost is neither
					// completely there nor completely absent
					first[i].Detail += fmt.Sprintf(" [a batch of %d is in doubt: all or nothing]", w.batchDoubt)
					first[i].Props = append(first[i].Props, "C15")
				}
			}
			w.add(first)
		}
	} else {
		vs := w.Model.CompareListing(now, opDesc, resp.Items)
		if refused {
			vs = tagRefusal(vs)
		}
		w.add(vs)
	}
	// learn ids adopted for anonymous enqueues
	{
		known := map[string]bool{}
		for _, id := range w.ids {
			known[id] = true
		}
		var fresh []*Msg
		for _, x := range w.Model.Msgs {
			if !known[x.ID] {
				fresh = append(fresh, x)
			}
		}
		sort.Slice(fresh, func(i, j int) bool { return fresh[i].Seq < fresh[j].Seq })
		for _, x := range fresh {
			w.ids = append(w.ids, x.ID)
			w.nameID(x.ID) // name in insertion order: identical on every backend
		}
	}
	w.Res.States = append(w.Res.States, w.Model.Hash())
}

func fmtConf(nm *namer, cs []queue.LeaseBatchConflict) string {
	var parts []string
	for _, c := range cs {
		id := c.LeaseID
		if strings.TrimSpace(id) != "" && !strings.HasPrefix(id, "lease_unknown") {
			id = nm.name("L", id)
		}
		parts = append(parts, fmt.Sprintf("%s:%v", id, c.Expired))
	}
	sort.Strings(parts)
	return "[" + strings.Join(parts, " ") + "]"
}

func (w *StoreWorld) nameLease(id string) string {
	t := strings.TrimSpace(id)
	if t == "" || strings.HasPrefix(t, "lease_unknown") {
		return fmt.Sprintf("%q", id)
	}
	n := w.names.name("L", t)
	if t != id {
		return "pad(" + n + ")"
	}
	return n
}

func (w *StoreWorld) nameID(id string) string {
	t := strings.TrimSpace(id)
	if t == "" || strings.HasPrefix(t, "evt_unknown") || strings.HasPrefix(t, "m") {
		return fmt.Sprintf("%q", id)
	}
	return w.names.name("M", t)
}

// settle applies the outcome of the main store call to the model: normally the
// observed result is checked and applied; if the call failed after an injected
// disk fault it is in doubt (it may or may not have taken effect).
func (w *StoreWorld) settle(err error, check func() []Violation) {
	if err != nil && w.faultInStep && w.assume != nil {
		w.alt = w.Model.Clone()
		w.assume(w.alt)
		w.doubtful = true
		w.Res.probe("indoubt.faulted_op")
		return
	}
	w.add(check())
}

// Exec runs one step against store and model.
func (w *StoreWorld) Exec(s Step) {
	if s.Op != "enqueue_batch" {
		w.batchDoubt = 0
	}
	w.step++
	now := w.Clock.Peek()
	r := w.Res
	r.Ops++
	w.loc = w.Cfg.Backend + "/" + s.Op
	w.assume, w.phase, w.doubtful = nil, "op", false
	if s.Filter == nil {
		s.Filter = &FilterSpec{} // hand-written corpus programs may leave it out
	}
	switch s.Op {
	case "advance":
		w.Clock.Advance(s.D)
		w.sum("advance %s -> %s", s.D, w.Clock.Peek().Format("15:04:05.000000000"))
		return
	case "clockback":
		// The wall clock is corrected backwards. C05 speaks of clock advances; what
		// stays defined for any clock is judged as always (nothing is offered before
		// its next_run_at or inside a live lease as the clock now reads, delays count
		// from the clock reading of the call). One bound is suspended: SQLite sweeps
		// expired leases at most every 10 ms of clock time, measured from the last
		// sweep, so until the clock has caught up with that sweep an expired lease may
		// stay leased.
		if hw := w.Clock.Peek(); hw.After(w.Model.SweepStallUntil) && w.Cfg.Backend != "memory" {
			w.Model.SweepStallUntil = hw.Add(w.Cfg.SweepGrace())
		}
		w.Clock.StepBack(s.D)
		r.fault("clock.step_back")
		w.sum("clock steps back %s -> %s", s.D, w.Clock.Peek().Format("15:04:05.000000000"))
		return
	case "enqueue":
		env := w.env(now, *s.Env)
		w.assume = func(m *Model) { m.Enqueue(now, []queue.Envelope{env}, false, 0, nil) }
		err := w.Store.Enqueue(env)
		w.loc = fmt.Sprintf("%s/enqueue/%s/%s", w.Cfg.Backend, w.Model.Cfg.DropPolicy, errClass(err))
		if w.Model.Reused[env.ID] {
			w.loc += "/reused-id"
		}
		w.sum("enqueue id=%s route=%s target=%s len=%d -> %s", w.nameID(env.ID), env.Route, env.Target, len(env.Payload), errShort(err))
		w.settle(err, func() []Violation { return w.Model.Enqueue(now, []queue.Envelope{env}, false, 0, err) })
		if err != nil {
			r.probe("enqueue.refused." + errClass(err))
		}
		w.observe("enqueue", err != nil && !w.doubtful)
	case "enqueue_batch":
		be, ok := w.Store.(queue.BatchEnqueuer)
		if !ok {
			r.Trouble = "store lacks BatchEnqueuer"
			return
		}
		envs := make([]queue.Envelope, 0, len(s.Items))
		w.batchFirstID = ""
		if s.Bulk > 0 && len(s.Items) > 0 {
			tmpl := s.Items[0]
			tmpl.ID, tmpl.DupOfRef = "new", nil
			s.Items = make([]EnvSpec, s.Bulk)
			for i := range s.Items {
				s.Items[i] = tmpl
			}
			r.probe(fmt.Sprintf("enqueue_batch.bulk.%d", s.Bulk))
		}
		if len(w.Model.Msgs)+len(s.Items) > 950 {
			// the world observes the whole store through one listing of at most
			// 1000 messages; stay below that
			w.sum("enqueue_batch n=%d skipped (world holds %d messages)", len(s.Items), len(w.Model.Msgs))
			return
		}
		for i, it := range s.Items {
			envs = append(envs, w.env(now, it))
			if i == 0 {
				w.batchFirstID = envs[0].ID
			}
		}
		w.assume = func(m *Model) { m.Enqueue(now, envs, true, len(envs), nil) }
		w.batchDoubt = len(envs)
		n, err := be.EnqueueBatch(envs)
		w.loc = fmt.Sprintf("%s/enqueue_batch/%s/%s", w.Cfg.Backend, w.Model.Cfg.DropPolicy, errClass(err))
		for _, e := range envs {
			if w.Model.Reused[e.ID] {
				w.loc += "/reused-id"
				break
			}
		}
		w.sum("enqueue_batch n=%d -> %d %s", len(envs), n, errShort(err))
		w.settle(err, func() []Violation { return w.Model.Enqueue(now, envs, true, n, err) })
		if err != nil {
			r.probe("enqueue_batch.refused." + errClass(err))
		}
		w.observe("enqueue_batch", err != nil && !w.doubtful)
		w.batchDoubt = 0
	case "dequeue":
		req := queue.DequeueRequest{Route: s.Route, Target: s.Target, Batch: s.Batch, LeaseTTL: s.TTL}
		w.assume = func(m *Model) { m.DoubtDequeue(now, req) }
		resp, err := w.Store.Dequeue(req)
		var got []string
		for _, it := range resp.Items {
			// a lease is named after its message and attempt, so that the name
			// does not depend on the order in which a backend returns items
			if it.LeaseID != "" {
				if _, ok := w.names.m[it.LeaseID]; !ok {
					w.names.m[it.LeaseID] = fmt.Sprintf("L(%s#%d)", strings.Trim(w.nameID(it.ID), `"`), it.Attempt)
				}
			}
			got = append(got, w.nameID(it.ID)+"/"+w.nameLease(it.LeaseID)+fmt.Sprintf("/a%d", it.Attempt))
		}
		sort.Strings(got)
		w.sum("dequeue route=%q target=%q batch=%d ttl=%s -> %v %s", s.Route, s.Target, s.Batch, s.TTL, got, errShort(err))
		w.settle(err, func() []Violation { return w.Model.Dequeue(now, req, resp, err) })
		// remember the leases in a backend-independent order (by message name)
		byName := append([]queue.Envelope(nil), resp.Items...)
		sort.SliceStable(byName, func(i, j int) bool { return w.nameID(byName[i].ID) < w.nameID(byName[j].ID) })
		for _, it := range byName {
			if it.LeaseID != "" {
				w.leases = append(w.leases, it.LeaseID)
			}
		}
		if len(resp.Items) > 0 {
			r.probe("dequeue.nonempty")
		}
		w.observe("dequeue", false)
	case "ack", "nack", "extend", "dead":
		id := s.LeaseLit
		if s.LeaseRef != nil {
			id = w.leaseByRef(*s.LeaseRef)
		}
		if s.Pad && id != "" {
			id = " " + id + "\t"
		}
		var err error
		op := map[string]leaseOp{"ack": opAck, "nack": opNack, "extend": opExtend, "dead": opDead}[s.Op]
		w.assume = func(m *Model) { m.applyLease(now, op, strings.TrimSpace(id), s.Delay, s.Reason) }
		switch s.Op {
		case "ack":
			err = w.Store.Ack(id)
		case "nack":
			err = w.Store.Nack(id, s.Delay)
		case "extend":
			err = w.Store.Extend(id, s.Delay)
		case "dead":
			err = w.Store.MarkDead(id, s.Reason)
		}
		w.sum("%s %s d=%s -> %s", s.Op, w.nameLease(id), s.Delay, errShort(err))
		w.settle(err, func() []Violation { return w.Model.LeaseSingle(now, op, id, s.Delay, s.Reason, err) })
		r.probe("lease." + s.Op + "." + strings.SplitN(errClass(err), ":", 2)[0])
		w.observe(s.Op, err != nil && !w.doubtful)
	case "ack_batch", "nack_batch", "dead_batch":
		bs, ok := w.Store.(queue.LeaseBatchStore)
		if !ok {
			r.Trouble = "store lacks LeaseBatchStore"
			return
		}
		ids := make([]string, 0, len(s.LeaseRefs))
		var shown []string
		for _, ref := range s.LeaseRefs {
			id := w.leaseByRef(ref)
			ids = append(ids, id)
			shown = append(shown, w.nameLease(id))
		}
		var res queue.LeaseBatchResult
		var err error
		op := map[string]leaseOp{"ack_batch": opAck, "nack_batch": opNack, "dead_batch": opDead}[s.Op]
		w.assume = func(m *Model) {
			for _, id := range uniqueIDs(ids) {
				m.applyLease(now, op, id, s.Delay, s.Reason)
			}
		}
		switch s.Op {
		case "ack_batch":
			res, err = bs.AckBatch(ids)
		case "nack_batch":
			res, err = bs.NackBatch(ids, s.Delay)
		case "dead_batch":
			res, err = bs.MarkDeadBatch(ids, s.Reason)
		}
		w.sum("%s %v d=%s -> ok=%d conflicts=%s %s", s.Op, shown, s.Delay, res.Succeeded, fmtConf(w.names, res.Conflicts), errShort(err))
		w.settle(err, func() []Violation { return w.Model.LeaseBatch(now, op, ids, s.Delay, s.Reason, res, err) })
		if len(res.Conflicts) > 0 {
			r.probe("lease.batch.conflict")
		}
		w.observe(s.Op, err != nil && !w.doubtful)
	case "cancel", "requeue", "resume", "dlq_requeue", "dlq_delete":
		ids := make([]string, 0, len(s.IDRefs))
		var shown []string
		for _, ref := range s.IDRefs {
			id := w.idByRef(ref)
			ids = append(ids, id)
			shown = append(shown, w.nameID(id))
		}
		var changed, matched int
		hasMatched := true
		var err error
		var op manageOp
		switch s.Op {
		case "cancel":
			op = mCancel
			var resp queue.MessageCancelResponse
			resp, err = w.Store.CancelMessages(queue.MessageCancelRequest{IDs: ids})
			changed, matched = resp.Canceled, resp.Matched
		case "requeue":
			op = mRequeue
			var resp queue.MessageRequeueResponse
			resp, err = w.Store.RequeueMessages(queue.MessageRequeueRequest{IDs: ids})
			changed, matched = resp.Requeued, resp.Matched
		case "resume":
			op = mResume
			var resp queue.MessageResumeResponse
			resp, err = w.Store.ResumeMessages(queue.MessageResumeRequest{IDs: ids})
			changed, matched = resp.Resumed, resp.Matched
		case "dlq_requeue":
			op = mDLQRequeue
			var resp queue.DeadRequeueResponse
			resp, err = w.Store.RequeueDead(queue.DeadRequeueRequest{IDs: ids})
			changed, hasMatched = resp.Requeued, false
		case "dlq_delete":
			op = mDLQDelete
			var resp queue.DeadDeleteResponse
			resp, err = w.Store.DeleteDead(queue.DeadDeleteRequest{IDs: ids})
			changed, hasMatched = resp.Deleted, false
		}
		w.sum("%s %v -> changed=%d matched=%d %s", s.Op, shown, changed, matched, errShort(err))
		w.add(w.Model.ManageIDs(now, op, ids, changed, matched, hasMatched, err))
		if changed > 0 {
			r.probe("manage." + s.Op + ".changed")
		}
		w.observe(s.Op, err != nil)
	case "cancel_f", "requeue_f", "resume_f":
		req := w.filter(s.Filter)
		var changed, matched int
		var preview bool
		var err error
		var op manageOp
		switch s.Op {
		case "cancel_f":
			op = mCancel
			var resp queue.MessageCancelResponse
			resp, err = w.Store.CancelMessagesByFilter(req)
			changed, matched, preview = resp.Canceled, resp.Matched, resp.PreviewOnly
		case "requeue_f":
			op = mRequeue
			var resp queue.MessageRequeueResponse
			resp, err = w.Store.RequeueMessagesByFilter(req)
			changed, matched, preview = resp.Requeued, resp.Matched, resp.PreviewOnly
		case "resume_f":
			op = mResume
			var resp queue.MessageResumeResponse
			resp, err = w.Store.ResumeMessagesByFilter(req)
			changed, matched, preview = resp.Resumed, resp.Matched, resp.PreviewOnly
		}
		w.sum("%s route=%q target=%q state=%q limit=%d before=%v preview=%v -> changed=%d matched=%d preview=%v %s", s.Op, req.Route, req.Target, req.State, req.Limit, !req.Before.IsZero(), req.PreviewOnly, changed, matched, preview, errShort(err))
		w.add(w.Model.ManageFilter(now, op, req, changed, matched, preview, err))
		if matched > 0 {
			r.probe("manage." + s.Op + ".matched")
		}
		w.observe(s.Op, err != nil)
	case "list":
		f := s.Filter
		req := queue.MessageListRequest{Route: f.Route, Target: f.Target, State: queue.State(f.State), Limit: f.Limit, Order: f.Order, IncludePayload: true, IncludeHeaders: true, IncludeTrace: true}
		mf := w.filter(f)
		req.Before = mf.Before
		resp, err := w.Store.ListMessages(req)
		w.observe("list", err != nil) // adopts pruning the listing itself may have done
		want, valid := w.Model.ListMessages(req)
		var got, exp []string
		for _, it := range resp.Items {
			got = append(got, it.ID)
		}
		for _, x := range want {
			exp = append(exp, x.ID)
		}
		var gotNames []string
		for _, id := range got {
			gotNames = append(gotNames, w.nameID(id))
		}
		w.sum("list route=%q target=%q state=%q limit=%d order=%q before=%v -> %s %s", req.Route, req.Target, req.State, req.Limit, req.Order, !req.Before.IsZero(), nameList(gotNames), errShort(err))
		if !valid {
			if err == nil {
				w.add([]Violation{viol("C13.list.order", "C13", "ListMessages accepted invalid order %q", req.Order)})
			}
			return
		}
		if err != nil {
			w.add([]Violation{viol("C02.list.error", "C02,C13", "ListMessages failed: %v", err)})
			return
		}
		if strings.Join(got, ",") != strings.Join(exp, ",") {
			w.add([]Violation{viol("C14.list.selection", "C14,C13", "ListMessages(%+v) returned %v, contract says %v", *f, got, exp)})
		}
	case "list_dead":
		f := s.Filter
		mf := w.filter(f)
		resp, err := w.Store.ListDead(queue.DeadListRequest{Route: f.Route, Limit: f.Limit, Before: mf.Before, IncludePayload: true, IncludeHeaders: true, IncludeTrace: true})
		w.observe("list_dead", err != nil)
		want, _ := w.Model.ListMessages(queue.MessageListRequest{Route: f.Route, State: queue.StateDead, Limit: f.Limit, Before: mf.Before, Order: "desc"})
		var deadNames []string
		for _, it := range resp.Items {
			deadNames = append(deadNames, w.nameID(it.ID))
		}
		sort.Strings(deadNames)
		w.sum("list_dead route=%q limit=%d -> %s %s", f.Route, f.Limit, nameList(deadNames), errShort(err))
		if err != nil {
			w.add([]Violation{viol("C02.list.error", "C02,C13", "ListDead failed: %v", err)})
			return
		}
		// order among equal received_at is not part of the contract here: compare as sets per timestamp rank
		gotSet := map[string]bool{}
		for _, it := range resp.Items {
			gotSet[it.ID] = true
			if it.State != queue.StateDead {
				w.add([]Violation{viol("C14.listdead.state", "C14,C13", "ListDead returned %s in state %s", it.ID, it.State)})
			}
		}
		if len(resp.Items) != len(want) {
			w.add([]Violation{viol("C14.listdead.count", "C14,C13", "ListDead returned %d items, contract says %d", len(resp.Items), len(want))})
		}
	case "attempt":
		// a delivery attempt record with an explicit time of its own (the push
		// dispatcher stamps them itself): recording order, time order and id
		// order need not agree
		w.attSeq++
		a := queue.DeliveryAttempt{ID: fmt.Sprintf("att-%02d", (97-w.attSeq*37%100+100)%100), EventID: fmt.Sprintf("evt-%d", s.Batch%3), Route: s.Route, Target: s.Target,
			Attempt: 1 + s.Batch%4, StatusCode: 500 + s.Batch%4, Outcome: queue.AttemptOutcomeRetry, CreatedAt: now.Add(s.D).UTC()}
		for _, o := range w.attempts {
			if o.ID == a.ID {
				a.ID += fmt.Sprintf("-%d", w.attSeq)
			}
		}
		err := w.Store.RecordAttempt(a)
		w.sum("attempt %s event=%s route=%s at %s -> %s", a.ID, a.EventID, a.Route, off(a.CreatedAt), errShort(err))
		if err != nil {
			w.add([]Violation{viol("C06.attempt.record", "C06,C13", "RecordAttempt failed: %v", err)})
			return
		}
		w.attempts = append(w.attempts, a)
	case "list_attempts":
		req := queue.AttemptListRequest{Route: s.Route, Target: s.Target, Limit: s.Batch}
		if s.Reason != "" {
			req.EventID = s.Reason
		}
		resp, err := w.Store.ListAttempts(req)
		var want []queue.DeliveryAttempt
		for _, a := range w.attempts {
			if (req.Route == "" || a.Route == req.Route) && (req.Target == "" || a.Target == req.Target) && (req.EventID == "" || a.EventID == req.EventID) {
				want = append(want, a)
			}
		}
		sort.Slice(want, func(i, j int) bool {
			if !want[i].CreatedAt.Equal(want[j].CreatedAt) {
				return want[i].CreatedAt.After(want[j].CreatedAt)
			}
			return want[i].ID > want[j].ID
		})
		limit := req.Limit
		if limit <= 0 {
			limit = 100
		}
		if limit > 1000 {
			limit = 1000
		}
		if len(want) > limit {
			want = want[:limit]
		}
		var got, exp []string
		for _, a := range resp.Items {
			got = append(got, fmt.Sprintf("%s@%s/%d/%d", a.ID, off(a.CreatedAt), a.Attempt, a.StatusCode))
		}
		for _, a := range want {
			exp = append(exp, fmt.Sprintf("%s@%s/%d/%d", a.ID, off(a.CreatedAt), a.Attempt, a.StatusCode))
		}
		w.sum("list_attempts route=%q target=%q event=%q limit=%d -> %v %s", req.Route, req.Target, req.EventID, req.Limit, got, errShort(err))
		if err != nil || strings.Join(got, " ") != strings.Join(exp, " ") {
			w.add([]Violation{viol("C13.attempts.list", "C13,C06", "ListAttempts(route=%q target=%q event=%q limit=%d) returned %v (err=%v), the newest first by (created_at, id) are %v", req.Route, req.Target, req.EventID, req.Limit, got, err, exp)})
		}
	case "stats":
		st, err := w.Store.Stats()
		w.observe("stats", err != nil)
		var top []string
		for _, b := range st.TopQueued {
			top = append(top, fmt.Sprintf("%s|%s|%d|%s|%s|%s|%s", b.Route, b.Target, b.Queued, off(b.OldestQueuedReceivedAt), off(b.EarliestQueuedNextRun), b.OldestQueuedAge, b.ReadyLag))
		}
		w.sum("stats -> total=%d bystate=%v oldest=%s earliest=%s age=%s lag=%s top=%v %s", st.Total, fmt.Sprint(st.ByState), off(st.OldestQueuedReceivedAt), off(st.EarliestQueuedNextRun), st.OldestQueuedAge, st.ReadyLag, top, errShort(err))
		if err != nil {
			w.add([]Violation{viol("C02.stats.error", "C02,C13", "Stats failed: %v", err)})
			return
		}
		w.add(w.Model.CheckStats(st, w.Clock.Now()))
	case "lookup":
		ids := make([]string, 0, len(s.IDRefs))
		for _, ref := range s.IDRefs {
			ids = append(ids, w.idByRef(ref))
		}
		resp, err := w.Store.LookupMessages(queue.MessageLookupRequest{IDs: ids})
		var lk []string
		for _, it := range resp.Items {
			lk = append(lk, w.nameID(it.ID)+"/"+string(it.State))
		}
		w.sum("lookup n=%d -> %v %s", len(ids), lk, errShort(err))
		if err != nil {
			w.add([]Violation{viol("C02.lookup.error", "C02,C13", "LookupMessages failed: %v", err)})
			return
		}
		var exp, got []string
		for _, id := range uniqueIDs(ids) {
			if x := w.Model.Msgs[id]; x != nil {
				exp = append(exp, x.ID+"/"+x.Route+"/"+string(x.State))
			}
		}
		for _, it := range resp.Items {
			got = append(got, it.ID+"/"+it.Route+"/"+string(it.State))
		}
		if strings.Join(got, ",") != strings.Join(exp, ",") {
			w.add([]Violation{viol("C13.lookup", "C13,C02", "LookupMessages(%q) = %v, contract says %v", ids, got, exp)})
		}
	default:
		r.Trouble = "store world: unknown op " + s.Op
	}
}

// RunStoreProgram executes a W-store program.
func RunStoreProgram(p *Program) *Result {
	w, err := NewStoreWorld(p)
	if err != nil {
		return &Result{Trouble: "open store: " + err.Error()}
	}
	defer w.Close()
	start := w.Clock.Peek()
	w.Res.logf("store world backend=%s max_depth=%d policy=%s retention=%s/%s delivered=%s dlq=%s/%d", p.Store.Backend, p.Store.MaxDepth, p.Store.DropPolicy, p.Store.RetentionMaxAge, p.Store.PruneInterval, p.Store.DeliveredMaxAge, p.Store.DLQMaxAge, p.Store.DLQMaxDepth)
	for _, s := range p.Steps {
		w.Exec(s)
		if w.Res.Trouble != "" {
			break
		}
	}
	w.Res.SimTime = int64(w.Clock.Peek().Sub(start))
	ms := w.Model.Stats
	for k, v := range map[string]int{"sweep.adopted": ms.SweepsAdopted, "prune.adopted": ms.PrunesAdopted, "evictions": ms.EvictionsSeen, "depth.ambiguous": ms.AmbiguousDepth, "depth.lifted_unpruned": ms.LiftedUnpruned, "lease.presented.expired": ms.ExpiredPresents, "lease.presented.stale": ms.StalePresents, "dequeue.from.expired": ms.DequeueFromExp} {
		if v > 0 {
			if w.Res.Probes == nil {
				w.Res.Probes = map[string]int{}
			}
			w.Res.Probes[k] += v
		}
	}
	return w.Res
}

// Canon is the canonical model state used to decide whether two backends that
// executed the same program are still in the same abstract state (lease ids are
// generated and therefore left out).
func (m *Model) Canon() string {
	var b strings.Builder
	xs := make([]*Msg, 0, len(m.Msgs))
	for _, x := range m.Msgs {
		xs = append(xs, x)
	}
	sort.Slice(xs, func(i, j int) bool { return xs[i].ID < xs[j].ID })
	for _, x := range xs {
		fmt.Fprintf(&b, "%s|%s|%s|%s|%d|%d|%d|%q|%d|%x;", x.ID, x.Route, x.Target, x.State, x.ReceivedAt.UnixNano(), x.NextRunAt.UnixNano(), x.Attempt, x.DeadReason, x.LeaseUntil.UnixNano(), x.Payload)
	}
	return b.String()
}

// RunDiffProgram (W-diff): the same program on the memory and the SQLite
// backend under one simulated time line. Each backend is checked against its
// own copy of the model; in addition every step's observable summary (call,
// arguments, results with generated ids renamed by first appearance) must be
// identical while the two abstract states are identical. When the backends
// legitimately part ways (a dequeue chose different ready messages, a lease
// sweep or a prune ran at a different moment) the run stops: C13 says nothing
// about histories after such a choice.
func RunDiffProgram(p *Program) *Result {
	pm, ps := *p, *p
	pm.Store.Backend, ps.Store.Backend = "memory", "sqlite"
	wm, err := NewStoreWorld(&pm)
	if err != nil {
		return &Result{Trouble: "open memory store: " + err.Error()}
	}
	defer wm.Close()
	ws, err := NewStoreWorld(&ps)
	if err != nil {
		return &Result{Trouble: "open sqlite store: " + err.Error()}
	}
	defer ws.Close()
	// one time line: the sqlite world is the installed verifclock source; both
	// stores take their clock through the public Now seam of their world, and
	// both clocks are advanced by the same steps.
	res := &Result{}
	res.logf("diff world max_depth=%d policy=%s retention=%s/%s delivered=%s dlq=%s/%d", p.Store.MaxDepth, p.Store.DropPolicy, p.Store.RetentionMaxAge, p.Store.PruneInterval, p.Store.DeliveredMaxAge, p.Store.DLQMaxAge, p.Store.DLQMaxDepth)
	start := ws.Clock.Peek()
	for i, s := range p.Steps {
		wm.stepViolations, ws.stepViolations = 0, 0
		wm.Exec(s)
		ws.Exec(s)
		res.Ops++
		res.logf("step %d memory: %s", i, wm.last)
		res.logf("step %d sqlite: %s", i, ws.last)
		if wm.Res.Trouble != "" || ws.Res.Trouble != "" {
			res.Trouble = wm.Res.Trouble + ws.Res.Trouble
			break
		}
		for _, w := range []*StoreWorld{wm, ws} {
			for _, v := range w.Res.Violations[len(w.Res.Violations)-w.stepViolations:] {
				res.Violations = append(res.Violations, v)
				res.logf("  VIOLATION [%s] %s", w.Cfg.Backend, v.String())
			}
		}
		if (wm.stepViolations > 0) != (ws.stepViolations > 0) {
			// one backend breaks the shared contract where the other honours it:
			// they are not observationally equivalent
			bad := wm
			if ws.stepViolations > 0 {
				bad = ws
			}
			v := viol("C13.deviates."+s.Op, "C13", "only the %s backend deviates from the shared contract at this step: %s", bad.Cfg.Backend, bad.Res.Violations[len(bad.Res.Violations)-1].String())
			// the location names the contract clause the backend broke, so that a
			// recorded finding covers this deviation and no other
			v.Loc = "diff/" + s.Op + "/" + bad.Cfg.Backend + "<-" + bad.Res.Violations[len(bad.Res.Violations)-1].Signature()
			res.Violations = append(res.Violations, v)
			res.logf("  VIOLATION %s", v.String())
		}
		same := wm.Model.Canon() == ws.Model.Canon()
		if wm.last != ws.last {
			if same || (s.Op != "dequeue" && wm.stepViolations == 0 && ws.stepViolations == 0 && !legitSplit(s.Op)) {
				v := viol("C13.diverge."+s.Op, "C13", "same call, same abstract state, different answers: memory {%s} sqlite {%s}", wm.last, ws.last)
				v.Loc = "diff/" + s.Op
				if over := wm.Cfg.MaxDepth > 0 && wm.Model.count(queue.StateQueued, queue.StateLeased) > wm.Cfg.MaxDepth; over &&
					strings.HasSuffix(wm.last, "-> full") && strings.HasSuffix(ws.last, "-> exists") {
					// recorded finding: two reasons to refuse hold at once (the id is taken, and an operator
					// requeue / resume has lifted the active count above max_depth so that no eviction makes
					// room); the backends name different ones. Both refuse, nothing changes.
					v.Loc = "diff/" + s.Op + "/over-limit+duplicate-id/memory:full,sqlite:exists"
				}
				res.Violations = append(res.Violations, v)
				res.logf("  VIOLATION %s", v.String())
			}
		}
		if !same {
			res.probe("diff.split." + s.Op)
			res.logf("backends legitimately parted ways at step %d (%s); stop", i, s.Op)
			break
		}
		res.States = append(res.States, wm.Model.Hash())
	}
	res.SimTime = int64(ws.Clock.Peek().Sub(start))
	for _, w := range []*StoreWorld{wm, ws} {
		for k, v := range w.Res.Probes {
			if res.Probes == nil {
				res.Probes = map[string]int{}
			}
			res.Probes[k] += v
		}
	}
	return res
}

// legitSplit: operations after which the abstract states may differ without a
// defect (sweep timing, prune timing, choice among ready messages).
func legitSplit(op string) bool {
	switch op {
	case "dequeue", "enqueue", "enqueue_batch", "list", "list_dead", "stats":
		return true // these may prune / sweep / evict among ties
	}
	return false
}
