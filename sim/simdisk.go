package sim

// simdisk: a shim SQLite VFS, registered as the default VFS of the process.
// Every method forwards to the real unix VFS (locking, shared memory and reads
// are untouched); before xWrite/xTruncate/xSync/xDelete the simulator is
// consulted and may inject an error, a short write, or a crash. Per file it
// keeps the content as of the last successful xSync (shadow) and the list of
// writes since then, from which post-crash images are built:
//   kill image      = the real files as they are (process death only)
//   power-loss image = shadow + an arbitrary subset of the unsynced writes,
//                      each applied, dropped or torn at a 512-byte boundary.

import (
	"fmt"
	"math/rand"
	"os"
	"path/filepath"
	"strings"
	"sync"
	"unsafe"

	"modernc.org/libc"
	sqlite3 "modernc.org/sqlite/lib"
)

const (
	sqliteOK          = 0
	sqliteIOErr       = 10
	sqliteFull        = 13
	sqliteIOErrWrite  = 10 | (3 << 8)
	sqliteIOErrFsync  = 10 | (4 << 8)
	sqliteIOErrTrunc  = 10 | (6 << 8)
	sqliteIOErrDelete = 10 | (10 << 8)
)

type pendingWrite struct {
	off  int64
	data []byte
}

type diskFile struct {
	path    string
	shadow  []byte // content as of the last successful sync
	pending []pendingWrite
	exists  bool
}

// DiskDecision is what the simulator answers at a disk operation.
type DiskDecision int

const (
	DiskContinue DiskDecision = iota
	DiskEIO
	DiskFull
	DiskShort
	DiskCrash
)

// Disk is the simulated durability layer for all files under one root.
type Disk struct {
	mu    sync.Mutex
	root  string // only files under this directory are tracked
	files map[string]*diskFile
	// Decide is consulted before every mutating operation on a tracked file.
	Decide       func(kind string, path string, n int) DiskDecision
	dead         bool // after a crash: every operation fails, nothing reaches the file
	writeLocks   int
	busy         bool // another process holds the write lock (injected)
	BusyRefusals int
	Ops          int
	Counts       map[string]int
}

var (
	vfsOnce     sync.Once
	vfsErr      error
	origVfs     uintptr
	vfsTLS      *libc.TLS
	disksMu     sync.Mutex
	disks       []*Disk // active disks (matched by root prefix)
	ioMethods   uintptr // our io_methods table (C memory)
	fileHdrSize = int32(unsafe.Sizeof(uintptr(0)) * 2)
	openFiles   sync.Map // pFile -> *openFile
)

type openFile struct {
	path string
	disk *Disk
}

func cfn[T any](f T) uintptr { return *(*uintptr)(unsafe.Pointer(&struct{ f T }{f})) }

func call[T any](fp uintptr) T { return *(*T)(unsafe.Pointer(&struct{ p uintptr }{fp})) }

func origFile(pFile uintptr) uintptr { return pFile + uintptr(fileHdrSize) }

func origMethods(pFile uintptr) *sqlite3.Tsqlite3_io_methods {
	return (*sqlite3.Tsqlite3_io_methods)(unsafe.Pointer((*sqlite3.Tsqlite3_file)(unsafe.Pointer(origFile(pFile))).FpMethods))
}

// InstallSimDisk registers the shim VFS as the process default (once).
func InstallSimDisk() error {
	vfsOnce.Do(func() {
		tls := libc.NewTLS()
		vfsTLS = tls
		if rc := sqlite3.Xsqlite3_initialize(tls); rc != 0 {
			vfsErr = fmt.Errorf("sqlite3_initialize rc=%d", rc)
			return
		}
		origVfs = sqlite3.Xsqlite3_vfs_find(tls, 0)
		if origVfs == 0 {
			vfsErr = fmt.Errorf("no default vfs")
			return
		}
		o := (*sqlite3.Tsqlite3_vfs)(unsafe.Pointer(origVfs))
		sz := unsafe.Sizeof(sqlite3.Tsqlite3_vfs{})
		p := libc.Xcalloc(tls, 1, libc.Tsize_t(sz))
		v := (*sqlite3.Tsqlite3_vfs)(unsafe.Pointer(p))
		*v = *o
		v.FpNext = 0
		name, _ := libc.CString("simdisk")
		v.FzName = name
		v.FszOsFile = o.FszOsFile + fileHdrSize
		v.FxOpen = cfn(vfsOpen)
		v.FxDelete = cfn(vfsDelete)
		v.FxAccess = cfn(vfsAccess)
		v.FxFullPathname = cfn(vfsFullPathname)
		v.FxSleep = cfn(vfsSleep)

		msz := unsafe.Sizeof(sqlite3.Tsqlite3_io_methods{})
		ioMethods = libc.Xcalloc(tls, 1, libc.Tsize_t(msz))
		m := (*sqlite3.Tsqlite3_io_methods)(unsafe.Pointer(ioMethods))
		m.FiVersion = 3
		m.FxClose = cfn(ioClose)
		m.FxRead = cfn(ioRead)
		m.FxWrite = cfn(ioWrite)
		m.FxTruncate = cfn(ioTruncate)
		m.FxSync = cfn(ioSync)
		m.FxFileSize = cfn(ioFileSize)
		m.FxLock = cfn(ioLock)
		m.FxUnlock = cfn(ioUnlock)
		m.FxCheckReservedLock = cfn(ioCheckReservedLock)
		m.FxFileControl = cfn(ioFileControl)
		m.FxSectorSize = cfn(ioSectorSize)
		m.FxDeviceCharacteristics = cfn(ioDeviceCharacteristics)
		m.FxShmMap = cfn(ioShmMap)
		m.FxShmLock = cfn(ioShmLock)
		m.FxShmBarrier = cfn(ioShmBarrier)
		m.FxShmUnmap = cfn(ioShmUnmap)
		m.FxFetch = cfn(ioFetch)
		m.FxUnfetch = cfn(ioUnfetch)

		if rc := sqlite3.Xsqlite3_vfs_register(tls, p, 1); rc != 0 {
			vfsErr = fmt.Errorf("sqlite3_vfs_register rc=%d", rc)
		}
	})
	return vfsErr
}

// NewDisk starts tracking all SQLite files below root.
func NewDisk(root string) *Disk {
	d := &Disk{root: filepath.Clean(root) + string(os.PathSeparator), files: map[string]*diskFile{}, Counts: map[string]int{}}
	disksMu.Lock()
	disks = append(disks, d)
	disksMu.Unlock()
	return d
}

// Release stops tracking (the files themselves are left to the caller).
func (d *Disk) Release() {
	disksMu.Lock()
	for i, x := range disks {
		if x == d {
			disks = append(disks[:i], disks[i+1:]...)
			break
		}
	}
	disksMu.Unlock()
	// connections of a dead process are never closed (their callers stay parked),
	// so this object stays reachable through them: let go of the file contents
	d.mu.Lock()
	if d.dead {
		d.files = map[string]*diskFile{}
	}
	d.mu.Unlock()
}

func diskFor(path string) *Disk {
	disksMu.Lock()
	defer disksMu.Unlock()
	for _, d := range disks {
		if strings.HasPrefix(path, d.root) {
			return d
		}
	}
	return nil
}

func (d *Disk) file(path string) *diskFile {
	f := d.files[path]
	if f == nil {
		f = &diskFile{path: path}
		// a file that already exists when first seen is taken as durable
		if b, err := os.ReadFile(path); err == nil {
			f.shadow = b
			f.exists = true
		}
		d.files[path] = f
	}
	return f
}

func (d *Disk) decide(kind, path string, n int) DiskDecision {
	d.Ops++
	d.Counts[kind]++
	if d.dead {
		return DiskEIO
	}
	if d.Decide == nil {
		return DiskContinue
	}
	dec := d.Decide(kind, path, n)
	if dec == DiskCrash {
		// the process dies before this operation: nothing reaches the files
		// from now on, whatever the unwinding code still attempts
		d.dead = true
	}
	return dec
}

// Kill marks the disk dead: the process is gone, nothing reaches the files.
func (d *Disk) Kill() {
	d.mu.Lock()
	d.dead = true
	d.mu.Unlock()
}

// SetBusy switches injected write-lock contention on or off.
func (d *Disk) SetBusy(b bool) {
	d.mu.Lock()
	d.busy = b
	d.mu.Unlock()
}

// vfsSleep: SQLite's busy handler waits through the VFS; simulated waits cost no
// real time (the handler's budget is counted in the delays it asks for).
func vfsSleep(tls *libc.TLS, pVfs uintptr, micro int32) int32 { return micro }

// WriteLocked: some connection on a file of this disk is inside a write
// transaction (holds the WAL write lock).
func (d *Disk) WriteLocked() bool {
	d.mu.Lock()
	defer d.mu.Unlock()
	return d.writeLocks > 0
}

func (d *Disk) Dead() bool {
	d.mu.Lock()
	defer d.mu.Unlock()
	return d.dead
}

// Image writes a post-crash image of every tracked file (except -shm, which is
// not durable state) into dstDir. powerLoss=false: the files as they are.
// powerLoss=true: shadow + a seeded subset of unsynced writes.
func (d *Disk) Image(dstDir string, powerLoss bool, seed int64) (applied, dropped, torn int, err error) {
	d.mu.Lock()
	defer d.mu.Unlock()
	rng := rand.New(rand.NewSource(seed))
	names := make([]string, 0, len(d.files))
	for p := range d.files {
		names = append(names, p)
	}
	sortStrings(names)
	for _, p := range names {
		f := d.files[p]
		if strings.HasSuffix(p, "-shm") {
			continue
		}
		rel := strings.TrimPrefix(p, d.root)
		dst := filepath.Join(dstDir, rel)
		if !powerLoss {
			b, rerr := os.ReadFile(p)
			if rerr != nil {
				if os.IsNotExist(rerr) {
					continue
				}
				return 0, 0, 0, rerr
			}
			if werr := os.WriteFile(dst, b, 0o644); werr != nil {
				return 0, 0, 0, werr
			}
			continue
		}
		if !f.exists {
			continue
		}
		img := append([]byte(nil), f.shadow...)
		for _, w := range f.pending {
			switch k := rng.Intn(4); {
			case k == 0:
				dropped++
				continue
			case k == 1 && len(w.data) > 512:
				// torn: a prefix of whole 512-byte sectors reaches the platter
				sectors := len(w.data) / 512
				keep := (1 + rng.Intn(sectors)) * 512
				if keep >= len(w.data) {
					keep = len(w.data) - 512
				}
				img = applyWrite(img, w.off, w.data[:keep])
				torn++
			default:
				img = applyWrite(img, w.off, w.data)
				applied++
			}
		}
		if werr := os.WriteFile(dst, img, 0o644); werr != nil {
			return 0, 0, 0, werr
		}
	}
	return
}

func sortStrings(a []string) {
	for i := 1; i < len(a); i++ {
		for j := i; j > 0 && a[j] < a[j-1]; j-- {
			a[j], a[j-1] = a[j-1], a[j]
		}
	}
}

func applyWrite(img []byte, off int64, data []byte) []byte {
	end := int(off) + len(data)
	if end > len(img) {
		img = append(img, make([]byte, end-len(img))...)
	}
	copy(img[off:], data)
	return img
}

// PendingWrites reports the number of unsynced writes (probe).
func (d *Disk) PendingWrites() int {
	d.mu.Lock()
	defer d.mu.Unlock()
	n := 0
	for _, f := range d.files {
		n += len(f.pending)
	}
	return n
}

// ---- VFS methods -----------------------------------------------------------

func vfsOpen(tls *libc.TLS, pVfs uintptr, zName uintptr, pFile uintptr, flags int32, pOutFlags uintptr) int32 {
	o := (*sqlite3.Tsqlite3_vfs)(unsafe.Pointer(origVfs))
	// header: our methods pointer (set below) + spare word
	*(*uintptr)(unsafe.Pointer(pFile)) = 0
	rc := call[func(*libc.TLS, uintptr, uintptr, uintptr, int32, uintptr) int32](o.FxOpen)(tls, origVfs, zName, origFile(pFile), flags, pOutFlags)
	if rc != 0 {
		return rc
	}
	if (*sqlite3.Tsqlite3_file)(unsafe.Pointer(origFile(pFile))).FpMethods != 0 {
		*(*uintptr)(unsafe.Pointer(pFile)) = ioMethods
	}
	if zName != 0 {
		path := libc.GoString(zName)
		if d := diskFor(path); d != nil {
			d.mu.Lock()
			f := d.file(path)
			f.exists = true // creation is treated as durable at once
			d.mu.Unlock()
			openFiles.Store(pFile, &openFile{path: path, disk: d})
		}
	}
	return rc
}

func vfsDelete(tls *libc.TLS, pVfs uintptr, zName uintptr, syncDir int32) int32 {
	o := (*sqlite3.Tsqlite3_vfs)(unsafe.Pointer(origVfs))
	path := libc.GoString(zName)
	if d := diskFor(path); d != nil {
		d.mu.Lock()
		dec := d.decide("delete", path, 0)
		if dec != DiskContinue {
			d.mu.Unlock()
			return sqliteIOErrDelete
		}
		delete(d.files, path) // deletion is treated as durable at once
		d.mu.Unlock()
	}
	return call[func(*libc.TLS, uintptr, uintptr, int32) int32](o.FxDelete)(tls, origVfs, zName, syncDir)
}

func vfsAccess(tls *libc.TLS, pVfs uintptr, zName uintptr, flags int32, pResOut uintptr) int32 {
	o := (*sqlite3.Tsqlite3_vfs)(unsafe.Pointer(origVfs))
	return call[func(*libc.TLS, uintptr, uintptr, int32, uintptr) int32](o.FxAccess)(tls, origVfs, zName, flags, pResOut)
}

func vfsFullPathname(tls *libc.TLS, pVfs uintptr, zName uintptr, nOut int32, zOut uintptr) int32 {
	o := (*sqlite3.Tsqlite3_vfs)(unsafe.Pointer(origVfs))
	return call[func(*libc.TLS, uintptr, uintptr, int32, uintptr) int32](o.FxFullPathname)(tls, origVfs, zName, nOut, zOut)
}

func lookup(pFile uintptr) *openFile {
	if v, ok := openFiles.Load(pFile); ok {
		return v.(*openFile)
	}
	return nil
}

func ioClose(tls *libc.TLS, pFile uintptr) int32 {
	openFiles.Delete(pFile)
	m := origMethods(pFile)
	rc := call[func(*libc.TLS, uintptr) int32](m.FxClose)(tls, origFile(pFile))
	return rc
}

func ioRead(tls *libc.TLS, pFile uintptr, buf uintptr, amt int32, off int64) int32 {
	return call[func(*libc.TLS, uintptr, uintptr, int32, int64) int32](origMethods(pFile).FxRead)(tls, origFile(pFile), buf, amt, off)
}

func ioWrite(tls *libc.TLS, pFile uintptr, buf uintptr, amt int32, off int64) int32 {
	of := lookup(pFile)
	fwd := call[func(*libc.TLS, uintptr, uintptr, int32, int64) int32](origMethods(pFile).FxWrite)
	if of == nil {
		return fwd(tls, origFile(pFile), buf, amt, off)
	}
	d := of.disk
	d.mu.Lock()
	dec := d.decide("write", of.path, int(amt))
	switch dec {
	case DiskEIO, DiskCrash:
		d.mu.Unlock()
		return sqliteIOErrWrite
	case DiskFull:
		d.mu.Unlock()
		return sqliteFull
	}
	data := append([]byte(nil), unsafe.Slice((*byte)(unsafe.Pointer(buf)), int(amt))...)
	if dec == DiskShort && amt > 1 {
		data = data[:amt/2]
	}
	f := d.file(of.path)
	f.pending = append(f.pending, pendingWrite{off: off, data: data})
	d.mu.Unlock()
	if dec == DiskShort && amt > 1 {
		_ = fwd(tls, origFile(pFile), buf, amt/2, off)
		return sqliteIOErrWrite
	}
	return fwd(tls, origFile(pFile), buf, amt, off)
}

func ioTruncate(tls *libc.TLS, pFile uintptr, size int64) int32 {
	of := lookup(pFile)
	fwd := call[func(*libc.TLS, uintptr, int64) int32](origMethods(pFile).FxTruncate)
	if of == nil {
		return fwd(tls, origFile(pFile), size)
	}
	d := of.disk
	d.mu.Lock()
	if dec := d.decide("truncate", of.path, 0); dec != DiskContinue {
		d.mu.Unlock()
		return sqliteIOErrTrunc
	}
	f := d.file(of.path)
	// truncation is treated as durable at once: fold pending writes, cut
	for _, w := range f.pending {
		f.shadow = applyWrite(f.shadow, w.off, w.data)
	}
	f.pending = nil
	if int64(len(f.shadow)) > size {
		f.shadow = f.shadow[:size]
	}
	d.mu.Unlock()
	return fwd(tls, origFile(pFile), size)
}

func ioSync(tls *libc.TLS, pFile uintptr, flags int32) int32 {
	of := lookup(pFile)
	fwd := call[func(*libc.TLS, uintptr, int32) int32](origMethods(pFile).FxSync)
	if of == nil {
		return fwd(tls, origFile(pFile), flags)
	}
	d := of.disk
	d.mu.Lock()
	if dec := d.decide("sync", of.path, 0); dec != DiskContinue {
		d.mu.Unlock()
		return sqliteIOErrFsync
	}
	f := d.file(of.path)
	for _, w := range f.pending {
		f.shadow = applyWrite(f.shadow, w.off, w.data)
	}
	f.pending = nil
	d.mu.Unlock()
	// durability is modelled, not performed: the real fsync is skipped
	return sqliteOK
}

func ioFileSize(tls *libc.TLS, pFile uintptr, pSize uintptr) int32 {
	return call[func(*libc.TLS, uintptr, uintptr) int32](origMethods(pFile).FxFileSize)(tls, origFile(pFile), pSize)
}

func ioLock(tls *libc.TLS, pFile uintptr, l int32) int32 {
	return call[func(*libc.TLS, uintptr, int32) int32](origMethods(pFile).FxLock)(tls, origFile(pFile), l)
}

func ioUnlock(tls *libc.TLS, pFile uintptr, l int32) int32 {
	return call[func(*libc.TLS, uintptr, int32) int32](origMethods(pFile).FxUnlock)(tls, origFile(pFile), l)
}

func ioCheckReservedLock(tls *libc.TLS, pFile uintptr, pRes uintptr) int32 {
	return call[func(*libc.TLS, uintptr, uintptr) int32](origMethods(pFile).FxCheckReservedLock)(tls, origFile(pFile), pRes)
}

func ioFileControl(tls *libc.TLS, pFile uintptr, op int32, pArg uintptr) int32 {
	return call[func(*libc.TLS, uintptr, int32, uintptr) int32](origMethods(pFile).FxFileControl)(tls, origFile(pFile), op, pArg)
}

func ioSectorSize(tls *libc.TLS, pFile uintptr) int32 {
	return call[func(*libc.TLS, uintptr) int32](origMethods(pFile).FxSectorSize)(tls, origFile(pFile))
}

func ioDeviceCharacteristics(tls *libc.TLS, pFile uintptr) int32 {
	return call[func(*libc.TLS, uintptr) int32](origMethods(pFile).FxDeviceCharacteristics)(tls, origFile(pFile))
}

func ioShmMap(tls *libc.TLS, pFile uintptr, iPg int32, pgsz int32, ext int32, pp uintptr) int32 {
	return call[func(*libc.TLS, uintptr, int32, int32, int32, uintptr) int32](origMethods(pFile).FxShmMap)(tls, origFile(pFile), iPg, pgsz, ext, pp)
}

func ioShmLock(tls *libc.TLS, pFile uintptr, offset int32, n int32, flags int32) int32 {
	// Injected lock contention: another process holds the WAL write lock, every
	// request for it is refused with SQLITE_BUSY (the busy handler then retries
	// through the VFS sleep, which does not sleep, until its budget is spent).
	if offset == 0 && n >= 1 && flags&8 != 0 && flags&2 != 0 {
		if v, ok := openFiles.Load(pFile); ok {
			if of := v.(*openFile); of.disk != nil {
				of.disk.mu.Lock()
				busy := of.disk.busy
				if busy {
					of.disk.BusyRefusals++
				}
				of.disk.mu.Unlock()
				if busy {
					return 5 // SQLITE_BUSY
				}
			}
		}
	}
	rc := call[func(*libc.TLS, uintptr, int32, int32, int32) int32](origMethods(pFile).FxShmLock)(tls, origFile(pFile), offset, n, flags)
	// WAL write lock = slot 0 of the shared-memory lock table, taken exclusively
	// for the duration of a write transaction (SQLITE_SHM_UNLOCK 1, _LOCK 2,
	// _EXCLUSIVE 8). Tracked so that the scheduler never parks a caller that
	// holds it: another connection would spin in the busy handler on real time.
	if rc == 0 && offset == 0 && n >= 1 && flags&8 != 0 {
		if v, ok := openFiles.Load(pFile); ok {
			if of := v.(*openFile); of.disk != nil {
				of.disk.mu.Lock()
				if flags&2 != 0 {
					of.disk.writeLocks++
				} else if flags&1 != 0 && of.disk.writeLocks > 0 {
					of.disk.writeLocks--
				}
				of.disk.mu.Unlock()
			}
		}
	}
	return rc
}

func ioShmBarrier(tls *libc.TLS, pFile uintptr) {
	call[func(*libc.TLS, uintptr)](origMethods(pFile).FxShmBarrier)(tls, origFile(pFile))
}

func ioShmUnmap(tls *libc.TLS, pFile uintptr, deleteFlag int32) int32 {
	return call[func(*libc.TLS, uintptr, int32) int32](origMethods(pFile).FxShmUnmap)(tls, origFile(pFile), deleteFlag)
}

func ioFetch(tls *libc.TLS, pFile uintptr, off int64, amt int32, pp uintptr) int32 {
	return call[func(*libc.TLS, uintptr, int64, int32, uintptr) int32](origMethods(pFile).FxFetch)(tls, origFile(pFile), off, amt, pp)
}

func ioUnfetch(tls *libc.TLS, pFile uintptr, off int64, p uintptr) int32 {
	return call[func(*libc.TLS, uintptr, int64, uintptr) int32](origMethods(pFile).FxUnfetch)(tls, origFile(pFile), off, p)
}
