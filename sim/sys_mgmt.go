package sim

// W-mgmt: the management API's config mutation (PUT / DELETE of an
// application/endpoint mapping through the real Admin handler ->
// app.mutateManagedEndpointConfig -> writeFileAtomic -> reloadConfig ->
// rollback) over simfs, with a fault at every os call. Small enough to be
// enumerated: variant x {no fault, errno at call k, crash before call k, reload
// read failure followed by a crash at a later call} (C18: "replace the file
// atomically ... and put the previous content back when validation or reload
// fails").

import (
	"bytes"
	"fmt"
	"net/http"
	"os"
	"strings"
	"sync"
	"syscall"

	"github.com/nuetzliches/hookaido/internal/config"
	"github.com/nuetzliches/hookaido/internal/queue"
)

type mgmtVariant struct {
	spec    *SysSpec
	method  string
	app, ep string
	route   string // PUT body
	wantMap bool   // the mapping exists afterwards
	// pending: what the operator saved to the file without reloading, before
	// the mutation arrives. The mutation works from the file, so a 2xx answer
	// makes all of it the running configuration - tokens included.
	pending *SysSpec
	// raceRoute: route on which a message arrives while the mutation is in flight
	raceRoute string
	// wantRefused: the pending edit needs a restart, so the reload that ends the
	// mutation cannot succeed: the call is refused, the operator's content is back
	// and the process behaves as before.
	wantRefused bool
}

func mgmtVariantByName(name string) *mgmtVariant {
	base := func() *SysSpec {
		return &SysSpec{Backend: "memory", PullTokens: []string{"pull-token-1"}, Routes: []RouteSpec{
			{Path: "/a", PullPath: "/pull/a"},
			{Path: "/b", PullPath: "/pull/b", Basic: []KV{{"alice", "s3cret"}}},
			{Path: "/c", PullPath: "/pull/c"},
		}}
	}
	switch name {
	case "upsert":
		return &mgmtVariant{spec: base(), method: "PUT", app: "billing", ep: "invoice", route: "/b", wantMap: true}
	case "delete":
		s := base()
		s.Routes[0].App, s.Routes[0].Endpoint = "billing", "invoice"
		return &mgmtVariant{spec: s, method: "DELETE", app: "billing", ep: "invoice", wantMap: false}
	case "move":
		s := base()
		s.Routes[0].App, s.Routes[0].Endpoint = "billing", "invoice"
		return &mgmtVariant{spec: s, method: "PUT", app: "billing", ep: "invoice", route: "/c", wantMap: true}
	case "upsert-pending-edit":
		// the file on disk has a rotated global pull token and a new route with
		// tokens of its own; nobody has reloaded yet
		p := base()
		p.PullTokens = []string{"pull-token-2"}
		p.Routes = append(p.Routes, RouteSpec{Path: "/d", PullPath: "/pull/d", PullTokens: []string{"d-token"}})
		return &mgmtVariant{spec: base(), pending: p, method: "PUT", app: "billing", ep: "invoice", route: "/b", wantMap: true}
	case "upsert-pending-restart-edit":
		// the operator's unreloaded edit changes queue limits (applied only by a
		// restart) and rotates the global pull token (applied live)
		p := base()
		p.PullTokens = []string{"pull-token-2"}
		p.MaxDepth, p.DropPolicy = 7, "reject"
		return &mgmtVariant{spec: base(), pending: p, method: "PUT", app: "billing", ep: "invoice", route: "/b", wantMap: true, wantRefused: true}
	case "delete-racing-message":
		s := base()
		s.Routes[0].App, s.Routes[0].Endpoint = "billing", "invoice"
		return &mgmtVariant{spec: s, method: "DELETE", app: "billing", ep: "invoice", wantMap: false, raceRoute: "/a"}
	case "move-racing-message":
		s := base()
		s.Routes[0].App, s.Routes[0].Endpoint = "billing", "invoice"
		return &mgmtVariant{spec: s, method: "PUT", app: "billing", ep: "invoice", route: "/c", wantMap: true, raceRoute: "/a"}
	case "upsert-sqlite":
		s := base()
		s.Backend = "sqlite"
		return &mgmtVariant{spec: s, method: "PUT", app: "ops", ep: "alerts", route: "/a", wantMap: true}
	}
	return nil
}

type mgmtBaseline struct {
	newBytes   []byte
	calls      int
	reloadRead int // index of the os call with which reloadConfig reads the file
	trouble    string
}

var (
	mgmtBaseMu sync.Mutex
	mgmtBase   = map[string]*mgmtBaseline{}
)

type mgmtRun struct {
	w        *SysWorld
	fs       *SimFS
	old      []byte
	status   int
	body     string
	mapped   bool // GET of the endpoint after the call (running configuration)
	mappedTo string
	raced    bool // the racing message was enqueued while the call was in flight
}

func (v *mgmtVariant) request() (*http.Request, error) {
	body := []byte(nil)
	if v.method == "PUT" {
		body = []byte(fmt.Sprintf(`{"route":%q}`, v.route))
	}
	return NewRequest(v.method, "/applications/"+v.app+"/endpoints/"+v.ep, "admin.internal", "127.0.0.1:9",
		[]KV{{"Content-Type", "application/json"}, {"X-Hookaido-Audit-Reason", "verif"}, {"X-Hookaido-Audit-Actor", "verif"}, {"X-Request-ID", "r-1"}}, body)
}

func (v *mgmtVariant) lookup(w *SysWorld) (bool, string) {
	req, err := NewRequest("GET", "/applications/"+v.app+"/endpoints/"+v.ep, "admin.internal", "127.0.0.1:9", nil, nil)
	if err != nil {
		return false, ""
	}
	resp := w.Do("mgmtget", w.Admin, req)
	if resp.Status != 200 {
		return false, ""
	}
	route := ""
	if i := strings.Index(string(resp.Body), `"route":"`); i >= 0 {
		rest := string(resp.Body)[i+9:]
		if j := strings.IndexByte(rest, '"'); j >= 0 {
			route = rest[:j]
		}
	}
	return true, route
}

// run executes the variant's mutation on a fresh node with the given faults.
func (v *mgmtVariant) run(failAt int, failErr error, crashAt int, raceAt ...int) (*mgmtRun, string) {
	spec := *v.spec
	w, err := NewSysWorld(&spec, 0, SysOptions{Seed: 1})
	if err != nil {
		return nil, "node: " + err.Error() + "\n" + spec.Render()
	}
	r := &mgmtRun{w: w}
	if v.pending != nil {
		if err := os.WriteFile(w.cfgPath, []byte(v.pending.Render()), 0o600); err != nil {
			w.Close()
			return nil, err.Error()
		}
	}
	r.old, err = os.ReadFile(w.cfgPath)
	if err != nil {
		w.Close()
		return nil, err.Error()
	}
	req, err := v.request()
	if err != nil {
		w.Close()
		return nil, err.Error()
	}
	fs := NewSimFS()
	fs.AddExisting(w.cfgPath, r.old)
	fs.FailAt, fs.FailErr, fs.CrashAt = failAt, failErr, crashAt
	fs.Install()
	var resp *Resp
	if len(raceAt) > 0 && raceAt[0] >= 0 {
		// a message arrives on the endpoint's current route after the mutation
		// has executed raceAt statements of mutateManagedEndpointConfig
		w.Sched.SetArmed(func(l string) bool { return strings.HasPrefix(l, "app.mutateManagedEndpointConfig#") })
		t := w.Start("mgmt", w.Admin, req)
		k := "parked"
		for i := 0; i <= raceAt[0] && k == "parked"; i++ {
			k = w.Sched.Step(t)
		}
		w.Sched.SetArmed(nil)
		if k == "parked" {
			r.raced = true
			_ = w.Node.Store.Enqueue(queue.Envelope{Route: v.raceRoute, Target: "pull", Payload: []byte("arrived-during-the-mutation")})
			k = w.Sched.RunToEnd(t)
		}
		resp = w.finish(t, k)
	} else {
		resp = w.Do("mgmt", w.Admin, req)
	}
	UninstallSimFS()
	r.fs = fs
	r.status, r.body = resp.Status, string(resp.Body)
	if w.Res.Trouble != "" {
		t := w.Res.Trouble
		w.Close()
		return nil, t
	}
	if !fs.Dead {
		r.mapped, r.mappedTo = v.lookup(w)
	}
	return r, ""
}

func mgmtBaselineFor(name string) *mgmtBaseline {
	mgmtBaseMu.Lock()
	defer mgmtBaseMu.Unlock()
	if b := mgmtBase[name]; b != nil {
		return b
	}
	b := &mgmtBaseline{reloadRead: -1}
	mgmtBase[name] = b
	v := mgmtVariantByName(name)
	r, trouble := v.run(-1, nil, -1)
	if trouble != "" {
		b.trouble = trouble
		return b
	}
	defer r.w.Close()
	b.calls = r.fs.Calls
	b.newBytes, _ = os.ReadFile(r.w.cfgPath)
	reads := 0
	for i, tl := range r.fs.Trace {
		if strings.Contains(tl, " readfile ") {
			reads++
			if reads == 2 {
				b.reloadRead = i
			}
		}
	}
	if v.wantRefused {
		// the content the mutation writes before its reload is refused: what the
		// same call produces on a node that runs the operator's edit already
		v2 := *v
		v2.spec, v2.pending, v2.wantRefused = v.pending, nil, false
		r2, trouble2 := v2.run(-1, nil, -1)
		if trouble2 != "" {
			b.trouble = trouble2
			return b
		}
		b.newBytes, _ = os.ReadFile(r2.w.cfgPath)
		r2.w.Close()
		return b
	}
	if r.status != 200 {
		b.trouble = fmt.Sprintf("fault-free %s answered %d %s", name, r.status, r.body)
	}
	return b
}

// RunMgmtProgram: Step{Op:"mgmtcase", Route: variant, Reason: none|crash|EIO|ENOSPC|EACCES|reloadfail+crash, Batch: call index}.
func RunMgmtProgram(p *Program) *Result {
	res := &Result{}
	for _, s := range p.Steps {
		if s.Op != "mgmtcase" {
			res.Trouble = "mgmt world: unknown op " + s.Op
			return res
		}
		runMgmtCase(res, s)
		if res.Trouble != "" {
			return res
		}
	}
	return res
}

func runMgmtCase(res *Result, s Step) {
	v := mgmtVariantByName(s.Route)
	if v == nil {
		res.Trouble = "unknown mgmt variant " + s.Route
		return
	}
	base := mgmtBaselineFor(s.Route)
	if base.trouble != "" {
		res.Trouble = "mgmt baseline " + s.Route + ": " + base.trouble
		return
	}
	failAt, crashAt, raceAt := -1, -1, -1
	var failErr error
	switch s.Reason {
	case "race":
		raceAt = s.Batch
	case "none":
	case "crash":
		crashAt = s.Batch
	case "reloadfail+crash":
		failAt, failErr, crashAt = base.reloadRead, syscall.EIO, s.Batch
	default:
		failAt, failErr = s.Batch, errnoByName(s.Reason)
	}
	r, trouble := v.run(failAt, failErr, crashAt, raceAt)
	if trouble != "" {
		res.Trouble = trouble
		return
	}
	defer r.w.Close()
	res.Ops++
	if r.raced {
		res.probe("mgmt.message_arrived_during_mutation")
	}
	loc := "mgmt/" + s.Route + "/" + s.Reason
	res.logf("%s %s fault=%s@%d -> status=%d (%d os calls, reload reads at #%d) mapped=%v(%s)", s.Route, v.method, s.Reason, s.Batch, r.status, r.fs.Calls, base.reloadRead, r.mapped, r.mappedTo)
	for _, tl := range r.fs.Trace {
		res.logf("  %s", strings.ReplaceAll(tl, r.w.base, ""))
	}
	addV := func(rule, format string, a ...any) {
		vv := viol(rule, "C18", format, a...)
		vv.Loc = loc
		res.Violations = append(res.Violations, vv)
		res.logf("  VIOLATION %s", vv.String())
	}
	path := r.w.cfgPath
	legal := func(st ImageState) bool {
		return st.Exists && (bytes.Equal(st.Content, r.old) || bytes.Equal(st.Content, base.newBytes))
	}
	checkImg := func(st ImageState, when string) {
		res.probe("mgmt.image")
		if !legal(st) {
			addV("C18.file.partial", "%s: after %s (%s) the config path holds neither the complete old nor the complete new content: exists=%v %d bytes %q", s.Route, when, st.How, st.Exists, len(st.Content), truncS(st.Content, 40))
		}
	}
	// the new content always compiles
	if cfg, err := config.Parse(base.newBytes); err != nil {
		addV("C18.mgmt.newcontent", "%s: the rewritten file does not parse: %v", s.Route, err)
	} else if _, vr := config.Compile(cfg); !vr.OK {
		addV("C18.mgmt.newcontent", "%s: the rewritten file does not compile: %s", s.Route, config.FormatValidationText(vr))
	}
	oldMapped := v.method == "DELETE" || strings.HasPrefix(s.Route, "move")
	switch {
	case r.fs.Dead:
		res.fault("mgmt.crash")
		if failAt >= 0 {
			res.probe("mgmt.crash_during_rollback_or_after_failed_reload")
		}
		checkImg(r.fs.KillState(path), fmt.Sprintf("a kill before os call #%d", crashAt))
		for _, st := range r.fs.Images(path) {
			checkImg(st, fmt.Sprintf("a power loss before os call #%d", crashAt))
		}
	default:
		if failAt >= 0 && r.fs.Calls > failAt {
			res.fault("mgmt." + strings.ToLower(s.Reason))
		}
		b, rerr := os.ReadFile(path)
		checkImg(ImageState{Exists: rerr == nil, Content: b, How: fmt.Sprintf("answer %d", r.status)}, "the call returned")
		for _, st := range r.fs.Images(path) {
			checkImg(st, "a power loss after the call returned")
		}
		ok2xx := r.status >= 200 && r.status < 300
		if v.wantRefused {
			res.probe("mgmt.pending_restart_edit")
			if ok2xx {
				addV("C18.mgmt.restart_required_applied", "%s: answered %d although the file differs from the running configuration by a setting that needs a restart (queue_limits): the reload that ends the mutation cannot have succeeded", s.Route, r.status)
			} else if !bytes.Equal(b, r.old) {
				addV("C18.mgmt.notrolledback", "%s: answered %d (%s) because the reload needs a restart, but the previous content (the operator's edit) is not back", s.Route, r.status, truncS([]byte(r.body), 120))
			}
			// running behaviour exactly as before: the Pull API honours the tokens
			// the process was started with, not the file's
			for _, pr := range []struct {
				tok  string
				want int
			}{{"pull-token-1", 200}, {"pull-token-2", 401}, {"", 401}} {
				hdrs := []KV{{"Content-Type", "application/json"}}
				if pr.tok != "" {
					hdrs = append(hdrs, KV{"Authorization", "Bearer " + pr.tok})
				}
				preq, _ := NewRequest("POST", "/pull/a/dequeue", "pull.internal", "10.9.9.9:5", hdrs, []byte(`{"batch":1,"lease_ttl":"1s"}`))
				if got := r.w.Do("mgmtpull", r.w.Pull, preq).Status; got != pr.want {
					addV("C18.mgmt.running_changed", "%s: answered %d; the reload needs a restart, so running behaviour stays as before, but dequeue on /pull/a with token %q is answered %d (before: %d)", s.Route, r.status, pr.tok, got, pr.want)
				}
			}
			if r.mapped {
				addV("C18.mgmt.running_changed", "%s: answered %d but the running configuration now maps %s/%s (%s)", s.Route, r.status, v.app, v.ep, r.mappedTo)
			}
			return
		}
		if ok2xx {
			res.probe("mgmt.applied")
			if !bytes.Equal(b, base.newBytes) {
				addV("C18.mgmt.answer_file", "%s: answered %d but the file is not the new content (%d bytes, old=%v)", s.Route, r.status, len(b), bytes.Equal(b, r.old))
			}
			if r.mapped != v.wantMap || (v.wantMap && v.route != "" && r.mappedTo != v.route) {
				addV("C18.mgmt.answer_running", "%s: answered %d but the running configuration maps %s/%s -> %v(%s), want %v(%s)", s.Route, r.status, v.app, v.ep, r.mapped, r.mappedTo, v.wantMap, v.route)
			}
			if v.pending != nil {
				// the running configuration is the file: who may pull is decided
				// by the token lists the file declares (route tokens replace the
				// global ones), on every endpoint the file declares
				for _, pr := range []struct {
					ep, tok string
					want    int
				}{
					{"/pull/a", "pull-token-2", 200}, {"/pull/a", "pull-token-1", 401}, {"/pull/a", "", 401},
					{"/pull/d", "d-token", 200}, {"/pull/d", "pull-token-2", 401}, {"/pull/d", "pull-token-1", 401}, {"/pull/d", "", 401},
				} {
					hdrs := []KV{{"Content-Type", "application/json"}}
					if pr.tok != "" {
						hdrs = append(hdrs, KV{"Authorization", "Bearer " + pr.tok})
					}
					preq, _ := NewRequest("POST", pr.ep+"/dequeue", "pull.internal", "10.9.9.9:5", hdrs, []byte(`{"batch":1,"lease_ttl":"1s"}`))
					got := r.w.Do("mgmtpull", r.w.Pull, preq).Status
					res.probe("mgmt.pending_edit.pull_probe")
					if got != pr.want {
						vv := viol("C11.mgmt.tokens", "C11,C18", "%s: after the management call was answered %d the file (and so the running configuration) declares other tokens than the Pull API honours: dequeue on %s with token %q answered %d, the file's token lists say %d", s.Route, r.status, pr.ep, pr.tok, got, pr.want)
						vv.Loc = loc
						res.Violations = append(res.Violations, vv)
						res.logf("  VIOLATION %s", vv.String())
					}
				}
			}
		} else {
			res.probe("mgmt.refused")
			if failAt >= 0 && failAt == base.reloadRead {
				res.probe("mgmt.reload_failed_rolled_back")
			}
			if !bytes.Equal(b, r.old) && !(failAt >= 0 && failAt == base.reloadRead) {
				// The write itself failed after the rename (directory sync): the
				// file holds the complete new content although the answer is an
				// error. The property asks for the previous content only when
				// validation or reload fails; atomicity holds. Counted, not judged.
				res.probe("mgmt.write_failed_after_rename_file_is_new")
			}
			if !bytes.Equal(b, r.old) && failAt >= 0 && failAt == base.reloadRead {
				addV("C18.mgmt.notrolledback", "%s: answered %d (%s) but the previous content is not back: the file is %s", s.Route, r.status, truncS([]byte(r.body), 120), map[bool]string{true: "the new content", false: "neither old nor new"}[bytes.Equal(b, base.newBytes)])
			}
			if s.Reason == "race" && !bytes.Equal(b, r.old) {
				// refused because backlog appeared on the old route (validation
				// after the write): the previous content has to be back
				addV("C18.mgmt.notrolledback", "%s: answered %d (%s) after a message arrived on the old route during the call, but the previous content is not back", s.Route, r.status, truncS([]byte(r.body), 120))
			}
			if r.mapped != oldMapped {
				addV("C18.mgmt.running_changed", "%s: answered %d but the running configuration changed: %s/%s mapped=%v(%s), before mapped=%v", s.Route, r.status, v.app, v.ep, r.mapped, r.mappedTo, oldMapped)
			}
		}
		if s.Reason == "none" && !ok2xx {
			res.Trouble = fmt.Sprintf("fault-free mgmt %s answered %d %s", s.Route, r.status, r.body)
			return
		}
		// whatever happened, the file on disk must still be loadable by the node
		if ok := r.w.Node.Reload("verif-after"); !ok {
			addV("C18.mgmt.stuck", "%s: after the call (answer %d) the file no longer reloads", s.Route, r.status)
		}
	}
}

func EnumMgmtCases() []*Program {
	var out []*Program
	mk := func(variant, reason string, k int) *Program {
		return &Program{World: "mgmt", Steps: []Step{{Op: "mgmtcase", Route: variant, Reason: reason, Batch: k}}}
	}
	for _, variant := range []string{"upsert", "delete", "move", "upsert-sqlite", "upsert-pending-edit"} {
		out = append(out, mk(variant, "none", 0))
		n := 26 // upper bound on os calls incl. rollback; cases beyond the last call are no-ops
		for k := 0; k <= n; k++ {
			out = append(out, mk(variant, "crash", k))
			for _, e := range []string{"EIO", "ENOSPC", "EACCES"} {
				out = append(out, mk(variant, e, k))
			}
			out = append(out, mk(variant, "reloadfail+crash", k))
		}
	}
	// a message arrives on the endpoint's current route while a delete / move is
	// in flight, after each statement of mutateManagedEndpointConfig in turn
	// the file is ahead of the running configuration by an edit that needs a restart
	out = append(out, mk("upsert-pending-restart-edit", "none", 0))
	for _, variant := range []string{"delete-racing-message", "move-racing-message"} {
		out = append(out, mk(variant, "none", 0))
		for k := 0; k <= 45; k++ {
			out = append(out, mk(variant, "race", k))
		}
	}
	return out
}

func init() {
	Register(&CheckSpec{
		Prop: "C18", World: "mgmt",
		Run:        RunMgmtProgram,
		Enum:       EnumMgmtCases,
		Level:      "fault_enumeration",
		NonTrivial: func(p *Program, r *Result) bool { return r.Probes["mgmt.image"] > 0 },
		Rule:       "W-mgmt, exhaustive: PUT / DELETE of an application/endpoint mapping through the real Admin handler on a fresh node (5 variants: upsert, delete, move, upsert on SQLite, upsert while the file holds an operator's edit that nobody has reloaded yet - rotated global pull token, new route with tokens of its own: after a 2xx the Pull API honours exactly the token lists the file declares; upsert while the file is ahead of the running configuration by an edit that needs a restart: the call is refused, the operator's content is back, the Pull API honours the old tokens; delete and move while a message arrives on the endpoint's current route after each statement of mutateManagedEndpointConfig in turn: a refused call leaves file and running mapping as they were), the os calls of mutateManagedEndpointConfig / writeFileAtomic / reloadConfig rerouted to simfs: no fault; EIO/ENOSPC/EACCES at every call; a crash before every call x every post-crash image; the reload's read failing (rollback path) followed by a crash before every later call. Oracle: the config path always holds the complete old or the complete new content, the new content compiles, a 2xx answer means file = new and running = new, any other answer means the previous content is back and the running mapping unchanged, and the file still reloads",
		RealStub: map[string]string{
			"admin.Server management handlers, app.mutateManagedEndpointConfig, applyManagedEndpointUpsert/Delete, config.Format/Parse/Compile, writeFileAtomic, reloadConfig": "real (node assembled by app.VerifNewNode; os calls rerouted to verifos by the check-time rewrite)",
			"file system durability": "simulated (simfs journal)",
			"HTTP listener":          "not exercised (request handed to the Admin handler)",
		},
		Quick: 1, Thorough: 1,
	})
	// the same enumeration judged for C11: token lists after a management mutation
	c := *Registry["C18/mgmt"]
	c.Prop = "C11"
	c.Enum = func() []*Program {
		var out []*Program
		for _, p := range EnumMgmtCases() {
			if p.Steps[0].Route == "upsert-pending-edit" {
				out = append(out, p)
			}
		}
		return out
	}
	c.Rule = "management mutation while the file holds an operator's edit that nobody has reloaded yet (rotated global pull token, new route with tokens of its own), with a fault at every os call as in W-mgmt: after a 2xx answer the Pull API honours exactly the token lists the file declares (route tokens replace global ones; no token = 401) on every endpoint the file declares"
	Register(&c)
}
