package sim

// Ingress world: requests against the real ingress handler of a node built
// from generated configuration; oracle = sysref.go + QueueModel.
// Serves C07 (ingress part), C08, C09, C10, C12 (ingress part), C17 (inbound).

import (
	"encoding/base64"
	"encoding/json"
	"fmt"
	"net/http"
	"net/http/httptest"
	"os"
	"path"
	"sort"
	"strconv"
	"strings"
	"time"

	"github.com/nuetzliches/hookaido/internal/queue"
)

type SignReq struct {
	Secret string `json:"secret"`           // secret used to sign
	TSOff  int64  `json:"ts_off,omitempty"` // signed timestamp = now + TSOff seconds
	Nonce  string `json:"nonce"`
	Mutate string `json:"mutate,omitempty"` // sig_bit body_bit path method drop_sig drop_ts drop_nonce bad_ts upper_sig
	// Replay > 0: resend, byte for byte, the k-th most recent signed request of
	// this run (same absolute timestamp, nonce, signature) - a captured request.
	Replay int `json:"replay,omitempty"`
}

type ReqSpec struct {
	Method  string     `json:"method"`
	Path    string     `json:"path"`
	Query   string     `json:"query,omitempty"`
	Host    string     `json:"host,omitempty"`
	Remote  string     `json:"remote,omitempty"`
	Headers []KV       `json:"headers,omitempty"`
	Body    []byte     `json:"body,omitempty"`
	Chunked bool       `json:"chunked,omitempty"` // body sent with Transfer-Encoding: chunked (no declared length)
	Sign    *SignReq   `json:"sign,omitempty"`
	Basic   *KV        `json:"basic,omitempty"`
	Route   int        `json:"route"`         // route whose header names / secrets the client aims at
	Fwd     *NetAction `json:"fwd,omitempty"` // what the forward-auth service answers to this request
}

type nonceRec struct {
	expiry   time.Time
	accepted map[int64]bool // signed timestamps (unix s) honoured with this nonce
}

type sentSigned struct {
	spec  ReqSpec
	tsStr string
}

type IngressWorld struct {
	*SysWorld
	Model     *Model
	nonces    map[string]map[string]*nonceRec // route -> nonce -> record (life of the node)
	limiters  map[string]*refLimiter          // "" global, else route path
	seq       int
	prop      string
	sent      []sentSigned
	tolRaised map[string]bool // routes whose hmac tolerance a reload has raised
}

func (w *IngressWorld) add(rule, props, loc, format string, a ...any) {
	v := viol(rule, props, format, a...)
	v.Loc = loc
	w.Res.Violations = append(w.Res.Violations, v)
	w.Res.logf("  VIOLATION %s", v.String())
}

func (w *IngressWorld) armLimiters(now time.Time) {
	w.limiters = map[string]*refLimiter{}
	if w.Spec.IngressRate != nil {
		w.limiters[""] = newRefLimiter(w.Spec.IngressRate, now)
	}
	for i := range w.Spec.Routes {
		r := &w.Spec.Routes[i]
		if r.Rate != nil {
			w.limiters[r.Path] = newRefLimiter(r.Rate, now)
		}
	}
}

func NewIngressWorld(spec *SysSpec, offset int64, opts SysOptions) (*IngressWorld, error) {
	sw, err := NewSysWorld(spec, offset, opts)
	if err != nil {
		return nil, err
	}
	w := &IngressWorld{SysWorld: sw, nonces: map[string]map[string]*nonceRec{}}
	w.Model = NewModel(sysQConfig(spec))
	w.armLimiters(w.Clock.Peek())
	return w, nil
}

func flipHexBit(s string) string {
	if s == "" {
		return s
	}
	b := []byte(s)
	c := b[len(b)-1]
	if c == '0' {
		b[len(b)-1] = '1'
	} else {
		b[len(b)-1] = '0'
	}
	return string(b)
}

// buildRequest turns a ReqSpec into the *http.Request the listener would hand
// to the ingress handler.
func (w *IngressWorld) buildRequest(rs *ReqSpec) (*http.Request, error) {
	now := w.Clock.Peek()
	target := rs.Path
	if rs.Query != "" {
		target += "?" + rs.Query
	}
	headers := append([]KV(nil), rs.Headers...)
	body := rs.Body
	if rs.Basic != nil {
		headers = append(headers, KV{"Authorization", "Basic " + base64.StdEncoding.EncodeToString([]byte(rs.Basic.Name+":"+rs.Basic.Value))})
	}
	fixedTS := ""
	if rs.Sign != nil && rs.Sign.Replay > 0 && len(w.sent) > 0 {
		prev := w.sent[len(w.sent)-1-(rs.Sign.Replay-1)%len(w.sent)]
		cp := prev.spec
		sg := *cp.Sign
		sg.Replay = 0
		cp.Sign = &sg
		cp.Fwd = rs.Fwd
		*rs = cp
		fixedTS = prev.tsStr
		headers = append([]KV(nil), rs.Headers...)
		body = rs.Body
		target = rs.Path
		if rs.Query != "" {
			target += "?" + rs.Query
		}
		if rs.Basic != nil {
			headers = append(headers, KV{"Authorization", "Basic " + base64.StdEncoding.EncodeToString([]byte(rs.Basic.Name+":"+rs.Basic.Value))})
		}
		w.Res.probe("hmac.captured_request_resent")
	}
	if rs.Sign != nil && len(w.Spec.Routes) > 0 {
		r := &w.Spec.Routes[rs.Route%len(w.Spec.Routes)]
		h := r.HMAC
		if h == nil {
			h = &HMACSpec{}
		}
		sigH, tsH, nonceH := hmacHeaders(h)
		tsStr := strconv.FormatInt(now.Unix()+rs.Sign.TSOff, 10)
		if fixedTS != "" {
			tsStr = fixedTS
		} else {
			w.sent = append(w.sent, sentSigned{spec: *rs, tsStr: tsStr})
		}
		cleaned := path.Clean(pathOnly(rs.Path))
		method := rs.Method
		signBody := body
		switch rs.Sign.Mutate {
		case "path":
			cleaned += "x"
		case "method":
			method = "PUT"
			if rs.Method == "PUT" {
				method = "POST"
			}
		case "body_bit":
			signBody = append(append([]byte(nil), body...), 0x01)
		case "bad_ts":
			tsStr = "12x"
		}
		sig := refSign([]byte(rs.Sign.Secret), tsStr, method, cleaned, signBody)
		switch rs.Sign.Mutate {
		case "sig_bit":
			sig = flipHexBit(sig)
		case "upper_sig":
			sig = strings.ToUpper(sig) // hex decoding is case-insensitive: still valid
		}
		if rs.Sign.Mutate != "drop_sig" {
			headers = append(headers, KV{sigH, sig})
		}
		if rs.Sign.Mutate != "drop_ts" {
			headers = append(headers, KV{tsH, tsStr})
		}
		if rs.Sign.Mutate != "drop_nonce" {
			headers = append(headers, KV{nonceH, rs.Sign.Nonce})
		}
	}
	return NewRequest(rs.Method, target, rs.Host, rs.Remote, headers, body, rs.Chunked)
}

func pathOnly(p string) string {
	if i := strings.IndexByte(p, '?'); i >= 0 {
		return p[:i]
	}
	return p
}

// Ingress executes one ingress request and checks it.
func (w *IngressWorld) IngressStep(rs *ReqSpec) {
	w.seq++
	now := w.Clock.Peek()
	req, err := w.buildRequest(rs)
	if err != nil {
		w.Res.logf("ingress %s %s: unbuildable request (%v), skipped", rs.Method, rs.Path, err)
		return
	}
	w.Res.Ops++
	hdrIn := req.Header.Clone()
	body := rs.Body
	// forward-auth service behaviour for this request
	var fwdAct *NetAction
	if rs.Fwd != nil {
		a := *rs.Fwd
		fwdAct = &a
	}
	w.Net.AddEndpoint(&Endpoint{Host: "auth.example", Handler: func(*NetRequest) *NetAction {
		if fwdAct == nil {
			return &NetAction{Kind: "status", Status: 200}
		}
		return fwdAct
	}})
	netBefore := len(w.Net.Log)

	resp := w.Do("ingress", w.Ingress, req)
	if w.Res.Trouble != "" {
		return
	}
	st := resp.Status
	loc := "ingress"

	idx, wantSt, allow := refResolve(w.Spec, req)
	cleaned := path.Clean(req.URL.Path)
	desc := fmt.Sprintf("ingress %s %s host=%s -> %d", rs.Method, rs.Path, rs.Host, st)
	enqTargets := 0
	defer func() {
		// whatever happened, the queue must be what the model says
		items, lerr := w.Listing()
		if lerr != nil {
			w.add("C02.list.error", "C02", loc, "listing failed: %v", lerr)
			return
		}
		for _, v := range w.Model.CompareListing(now, desc, items) {
			v.Loc = loc
			if st != 202 && (strings.HasPrefix(v.Rule, "C02.appeared") || strings.HasPrefix(v.Rule, "C02.vanished")) {
				// a rejected request changed the queue
				v.Props = append(v.Props, "C08", "C10", "C12")
				v.Rule = "ingress.rejected.changed:" + v.Rule
			}
			w.Res.Violations = append(w.Res.Violations, v)
			w.Res.logf("  VIOLATION %s", v.String())
		}
		w.Res.States = append(w.Res.States, w.Model.Hash())
	}()

	if idx >= 0 {
		if m := w.Spec.matchOf(&w.Spec.Routes[idx]); m != nil && len(m.Hosts) > 1 {
			if h := refNormalizeHost(req.Host); !refHostMatch(h, m.Hosts[:1]) && refHostMatch(h, m.Hosts) {
				w.Res.probe("ingress.host.matched_by_later_list_entry")
			}
		}
		if len(w.Spec.Routes[idx].MatchRefs) > 1 {
			w.Res.probe("ingress.route.with_several_named_matchers")
		}
	}
	if idx < 0 {
		w.Res.logf("%s (no route: want %d allow=%v)", desc, wantSt, allow)
		w.Res.probe(fmt.Sprintf("ingress.noroute.%d", wantSt))
		if st != wantSt {
			if st == 202 {
				w.add("C10.unreachable.accepted", "C10", loc+"/noroute", "request %s %s (host %q) matches no inbound route (reference says %d) but was accepted", rs.Method, rs.Path, rs.Host, wantSt)
				// keep the model in step with what happened
				w.adoptUnexpected(now)
			} else {
				w.add("C10.status", "C10", loc+"/noroute", "request %s %s matches no inbound route: got %d, reference says %d", rs.Method, rs.Path, st, wantSt)
			}
			return
		}
		if wantSt == http.StatusMethodNotAllowed {
			got := splitAllow(resp.Header.Get("Allow"))
			if strings.Join(sortedCopy(got), ",") != strings.Join(sortedCopy(allow), ",") {
				w.add("C10.allow", "C10", loc+"/405", "405 Allow=%v, reference says %v", got, allow)
			}
		}
		return
	}
	r := &w.Spec.Routes[idx]
	loc = "ingress/" + routeKind(r)
	w.Res.logf("%s (route %s)", desc, r.Path)

	// which route did the product use? (observable through the enqueued message)
	// 1. rate limit
	lim := w.limiters[r.Path]
	if lim == nil {
		lim = w.limiters[""]
	}
	if lim != nil {
		slack := lim.slack(now)
		if st == http.StatusTooManyRequests {
			w.Res.probe("ingress.429")
			if slack = lim.slackHi(now); slack > 1e-6 {
				w.add("C12.rate.unjustified429", "C12", loc, "429 although the limiter (rps=%g burst=%g) has room for this request (slack %.6f)", lim.rps, lim.burst, slack)
			}
			return
		}
		if slack < -1e-6 {
			w.add("C12.rate.exceeded", "C12", loc, "request admitted beyond burst + rps x window (rps=%g burst=%g, %d admitted since %s, slack %.6f)", lim.rps, lim.burst, len(lim.admitted), lim.t0.Format("15:04:05.000"), slack)
		}
		lim.admit(now, now)
		w.Res.probe("ingress.ratelimited.admitted")
	} else if st == http.StatusTooManyRequests {
		w.add("C12.rate.nolimiter", "C12", loc, "429 on a route without any rate limit")
		return
	}

	want := map[int]bool{}
	reason := ""
	decide := func(code int, why string) {
		if reason == "" {
			want[code] = true
			reason = why
		}
	}
	// 2. basic
	if len(r.Basic) > 0 && !refBasicOK(r, req) {
		decide(401, "basic credentials missing or wrong")
	}
	maxBody, maxHeaders := w.Spec.limitsFor(r)
	// 3. body size
	if reason == "" && len(body) > maxBody {
		decide(413, fmt.Sprintf("body %d > max_body %d", len(body), maxBody))
		w.Res.probe("ingress.body.toolarge")
	}
	// 4. forward auth
	var extra map[string]string
	if reason == "" && r.Forward != nil {
		calls := w.Net.Log[netBefore:]
		act := NetAction{Kind: "status", Status: 200}
		if fwdAct != nil {
			act = *fwdAct
		}
		w.Res.probe("fwd." + act.Kind)
		switch {
		case act.Kind == "status" && act.Status >= 200 && act.Status < 300:
			extra = map[string]string{}
			for _, name := range r.Forward.CopyHeaders {
				if v, ok := act.Headers[http.CanonicalHeaderKey(name)]; ok {
					extra[name] = v
				}
			}
			if len(calls) == 0 && st == 202 {
				w.add("C08.forward.notconsulted", "C08", loc, "request accepted without consulting the forward-auth service")
			}
		case act.Kind == "status" && (act.Status == 401 || act.Status == 403):
			decide(act.Status, "auth service denied")
		default:
			decide(503, "auth service "+act.Kind+" "+strconv.Itoa(act.Status))
		}
	}
	// 5. hmac
	acceptedBefore := false
	var nrec *nonceRec
	var signedTS int64
	if reason == "" && r.HMAC != nil {
		v := refHMAC(w.Spec, r, req, body, now)
		valid := v.wellFormed && v.inWindow && v.sigOK
		signedTS = v.ts.Unix()
		if w.nonces[r.Path] == nil {
			w.nonces[r.Path] = map[string]*nonceRec{}
		}
		nrec = w.nonces[r.Path][v.nonce]
		if v.atEdge {
			w.Res.probe("hmac.at_tolerance_edge")
		}
		switch {
		case !valid:
			why := "malformed"
			if v.wellFormed && !v.inWindow {
				why = "timestamp outside tolerance"
			} else if v.wellFormed {
				why = "signature does not match a secret valid at the signed timestamp"
			}
			decide(401, "hmac: "+why)
			w.Res.probe("hmac.invalid")
		case nrec != nil && nrec.accepted[v.ts.Unix()]:
			// a replay of a request that was already honoured, still inside its tolerance window
			acceptedBefore = true
			decide(401, "hmac: nonce already honoured (replay)")
			w.Res.probe("hmac.replay")
		case nrec != nil && !now.After(nrec.expiry):
			// nonce was presented before (by a request that failed): rejecting is
			// fail-closed and fine, accepting is fine too
			want[401] = true
			w.Res.probe("hmac.nonce_burned")
		}
		// remember the nonce (the product records it once the timestamp passed)
		if v.wellFormed && v.inWindow {
			if nrec == nil {
				nrec = &nonceRec{}
				w.nonces[r.Path][v.nonce] = nrec
			}
			if exp := v.ts.Add(hmacTolerance(r.HMAC)); exp.After(nrec.expiry) {
				nrec.expiry = exp
			}
		}
	}
	// 6. header size
	stored := refStoredHeaders(hdrIn, extra)
	if reason == "" && headerBytes(stored) > maxHeaders {
		decide(413, fmt.Sprintf("headers %d > max_headers %d", headerBytes(stored), maxHeaders))
		w.Res.probe("ingress.headers.toolarge")
	}
	if reason == "" {
		want[202] = true
		want[503] = true // a full queue refuses; the model judges whether it was full
	}

	if !want[st] {
		switch {
		case st == 202 && acceptedBefore:
			if w.tolRaised[r.Path] {
				loc += "/after-tolerance-raise"
			}
			w.add("C09.replay.accepted", "C09,C08", loc, "nonce %q on route %s was honoured a second time (%s)", noncesOf(req, r), r.Path, reason)
		case st == 202:
			w.add("C08.unauth.accepted", "C08,C17", loc, "request accepted although: %s", reason)
		case reason == "":
			w.add("C08.valid.rejected", "C08,C17,C10", loc, "request that passes every check was answered %d", st)
		default:
			w.add("C08.status", "C08,C12,C10", loc, "status %d, reference says %s because: %s", st, fmtSet(want), reason)
		}
	}
	if st == 202 && nrec != nil {
		if nrec.accepted == nil {
			nrec.accepted = map[int64]bool{}
		}
		nrec.accepted[signedTS] = true
	}
	if st == 202 || (st == 503 && reason == "") {
		// feed the queue model: 202 = one message per target; 503 = a prefix
		// (a 503 the reference explains otherwise - the forward-auth service
		// failed - never reached the queue)
		tg := r.targets()
		items, _ := w.Listing()
		newCount := 0
		for _, it := range items {
			if _, ok := w.Model.Msgs[it.ID]; !ok {
				newCount++
			}
		}
		for i, t := range tg {
			env := queue.Envelope{Route: r.Path, Target: t, Payload: append([]byte(nil), body...), Headers: stored, Trace: map[string]string{"remote_addr": req.RemoteAddr, "path": cleaned}}
			if st == 202 || i < newCount {
				for _, v := range w.Model.Enqueue(now, []queue.Envelope{env}, false, 0, nil) {
					v.Loc = loc
					w.Res.Violations = append(w.Res.Violations, v)
					w.Res.logf("  VIOLATION %s", v.String())
				}
				enqTargets++
				continue
			}
			for _, v := range w.Model.Enqueue(now, []queue.Envelope{env}, false, 0, queue.ErrQueueFull) {
				v.Loc = loc
				if v.Rule == "C12.refused.notfull" {
					v.Detail = "ingress answered 503 although the queue has room: " + v.Detail
				}
				w.Res.Violations = append(w.Res.Violations, v)
				w.Res.logf("  VIOLATION %s", v.String())
			}
			break
		}
		if st == 202 {
			w.Res.probe("ingress.202")
			if len(tg) > 1 {
				w.Res.probe("ingress.202.fanout")
			}
		} else {
			w.Res.probe("ingress.503")
		}
	}
}

// adoptUnexpected: after an acceptance the reference forbids, take the new
// messages into the model so that the same defect is reported once.
func (w *IngressWorld) adoptUnexpected(now time.Time) {
	items, _ := w.Listing()
	for _, it := range items {
		if _, ok := w.Model.Msgs[it.ID]; ok {
			continue
		}
		w.Model.Enqueue(now, []queue.Envelope{{ID: it.ID, Route: it.Route, Target: it.Target, Payload: it.Payload, Headers: it.Headers, Trace: it.Trace, ReceivedAt: it.ReceivedAt, NextRunAt: it.NextRunAt}}, false, 0, nil)
	}
}

func noncesOf(req *http.Request, r *RouteSpec) string {
	_, _, n := hmacHeaders(r.HMAC)
	return req.Header.Get(n)
}

func splitAllow(s string) []string {
	var out []string
	for _, p := range strings.Split(s, ",") {
		if p = strings.TrimSpace(p); p != "" {
			out = append(out, p)
		}
	}
	return out
}

func routeKind(r *RouteSpec) string {
	k := "inbound"
	if r.Channel != "" {
		k = r.Channel
	}
	switch {
	case r.HMAC != nil:
		k += "+hmac"
	case len(r.Basic) > 0:
		k += "+basic"
	case r.Forward != nil:
		k += "+forward"
	}
	return k
}

// ReloadStep: the operator replaces the config file and the node reloads
// (SIGHUP / --watch). A successful reload re-arms the rate limiters (C12
// excludes windows spanning a reload) but must not forget honoured nonces (C09).
func (w *IngressWorld) ReloadStep(ns *SysSpec) {
	w.Res.Ops++
	old, _ := os.ReadFile(w.cfgPath)
	if err := os.WriteFile(w.cfgPath, []byte(ns.Render()), 0o600); err != nil {
		w.Res.Trouble = err.Error()
		return
	}
	t := w.Sched.Go("reload", w.group, func() any { return w.Node.Reload("verif") })
	k := w.Sched.RunToEnd(t)
	if k != "done" {
		w.Res.Trouble = "reload task: " + k + " " + w.Sched.Trouble
		return
	}
	ok := t.Result.(bool)
	w.Res.logf("reload -> ok=%v", ok)
	if ok {
		w.Res.probe("reload.ok")
		for i := range ns.Routes {
			nr := &ns.Routes[i]
			if or := w.Spec.route(nr.Path); or != nil && or.HMAC != nil && nr.HMAC != nil && hmacTolerance(nr.HMAC) > hmacTolerance(or.HMAC) {
				if w.tolRaised == nil {
					w.tolRaised = map[string]bool{}
				}
				w.tolRaised[nr.Path] = true
				w.Res.probe("reload.tolerance_raised")
			}
		}
		w.Spec = ns
		w.armLimiters(w.Clock.Peek())
	} else {
		w.Res.probe("reload.refused")
		_ = os.WriteFile(w.cfgPath, old, 0o600)
	}
}

type ingressSys struct {
	Spec *SysSpec `json:"spec"`
}

// RunIngressProgram executes an ingress-world program.
func RunIngressProgram(p *Program) *Result {
	var sys ingressSys
	if err := json.Unmarshal(p.Sys, &sys); err != nil || sys.Spec == nil {
		return &Result{Trouble: "bad sys spec"}
	}
	spec := *sys.Spec
	w, err := NewIngressWorld(&spec, p.Offset, SysOptions{Seed: 1})
	if err != nil {
		// a generated configuration the product refuses is the generator's problem
		return &Result{Trouble: "node: " + err.Error() + "\n" + spec.Render()}
	}
	defer w.Close()
	start := w.Clock.Peek()
	w.Res.logf("ingress world backend=%s routes=%d", spec.Backend, len(spec.Routes))
	for _, s := range p.Steps {
		switch s.Op {
		case "ingress":
			w.IngressStep(s.Req)
		case "advance":
			w.Clock.Advance(s.D)
			w.Res.Ops++
			w.Res.logf("advance %s", s.D)
		case "reload":
			w.ReloadStep(s.NewSpec)
		case "race":
			w.RaceStep(s)
		case "flood":
			w.FloodStep(s)
		default:
			w.Res.Trouble = "ingress world: unknown op " + s.Op
		}
		if w.Res.Trouble != "" {
			break
		}
	}
	w.Res.SimTime = int64(w.Clock.Peek().Sub(start))
	return w.Res
}

// RaceStep serves several requests concurrently: each is a task, every statement
// of ServeHTTP, HMACAuth.Verify and the nonce cache is a scheduling point, and
// the choice list decides who proceeds. Typically the requests are the same
// signed request sent twice or three times at once (a captured request replayed
// while the original is still in flight). Judged by invariants that hold for
// every order: a captured request is honoured at most once (C09), and what was
// added to the queue is exactly what the accepted answers stand for (C08/C02).
func (w *IngressWorld) RaceStep(s Step) {
	now := w.Clock.Peek()
	w.Res.Ops++
	type racer struct {
		rs   ReqSpec
		key  string // route|nonce|signed ts ("" if unsigned)
		body []byte
		task *Task
		resp *Resp
		rt   *RouteSpec
	}
	before, err := w.Listing()
	if err != nil {
		w.add("C02.list.error", "C02", "ingress/race", "listing failed: %v", err)
		return
	}
	known := map[string]bool{}
	for _, it := range before {
		known[it.ID] = true
	}
	w.Net.AddEndpoint(&Endpoint{Host: "auth.example", Handler: func(*NetRequest) *NetAction { return &NetAction{Kind: "status", Status: 200} }})
	var rc []*racer
	for i := range s.Reqs {
		rs := s.Reqs[i]
		nsent := len(w.sent)
		req, err := w.buildRequest(&rs)
		if err != nil {
			continue
		}
		r := &racer{rs: rs, body: rs.Body}
		_ = nsent
		if idx, _, _ := refResolve(w.Spec, req); idx >= 0 {
			r.rt = &w.Spec.Routes[idx]
		}
		if r.rt != nil && r.rt.HMAC != nil {
			// replay protection concerns the route that serves the request, and
			// only if that route authenticates by HMAC
			_, tsH, nonceH := hmacHeaders(r.rt.HMAC)
			if n, ts := req.Header.Get(nonceH), req.Header.Get(tsH); n != "" && ts != "" {
				r.key = r.rt.Path + "|" + n + "|" + ts
			}
		}
		r.task = w.Start("race", w.Ingress, req)
		rc = append(rc, r)
	}
	if len(rc) < 2 && !(len(rc) == 1 && s.NewSpec != nil) {
		w.Res.logf("race: fewer than two buildable requests, skipped")
		return
	}
	// The clock may move while the requests are in flight (s.D per scheduling
	// decision): a request that has read the time can be overtaken by one that
	// reads a later time. Only when nothing else in the step depends on time
	// (no HMAC route among the racers, no reload).
	tick := s.D
	for _, r := range rc {
		if r.rt != nil && r.rt.HMAC != nil {
			tick = 0
		}
	}
	if s.NewSpec != nil {
		tick = 0
	}
	// The limiter's own notion of a request's time lies between the clock value the
	// request read inside allowIngress (carried) and the instant it went through
	// the limiter (passAt): with requests overtaking one another the two differ.
	carried, passAt, passSeq := map[*Task]time.Time{}, map[*Task]time.Time{}, map[*Task]int{}
	if tick > 0 {
		var inside *Task
		nPass := 0
		w.Sched.OnRelease = func(t *Task, label string) {
			inside = nil
			if strings.HasPrefix(label, "app.runtimeState.allowIngress#") {
				w.Clock.Advance(tick)
				inside = t
				nPass++
				passSeq[t], passAt[t] = nPass, w.Clock.Peek()
			}
		}
		w.Clock.OnRead(func(v time.Time) {
			if inside != nil {
				carried[inside] = v
			}
		})
		defer func() { w.Sched.OnRelease = nil; w.Clock.OnRead(nil) }()
		w.Res.probe("race.clock_moves")
	}
	w.Sched.SetArmed(func(l string) bool {
		return strings.HasPrefix(l, "ingress.Server.ServeHTTP#") || strings.HasPrefix(l, "ingress.HMACAuth.Verify#") || strings.HasPrefix(l, "ingress.nonceCache.") ||
			(tick > 0 && strings.HasPrefix(l, "app.runtimeState.allowIngress#")) ||
			(s.NewSpec != nil && (strings.HasPrefix(l, "app.reloadConfig#") || strings.HasPrefix(l, "app.runtimeState.loadAuth#")))
	})
	w.Sched.DetectBlocked = true
	tasks := make([]*Task, len(rc))
	for i, r := range rc {
		tasks[i] = r.task
	}
	// A configuration reload may run alongside the requests. The new file differs
	// from the old one in nothing a request can observe (a comment), so every
	// interleaving has to give the answers of the one configuration; what the
	// step adds is the reload's effect on state that has to outlive it (the
	// replay caches), judged by the steps that follow.
	var reloadTask *Task
	var oldFile []byte
	if s.NewSpec != nil {
		oldFile, _ = os.ReadFile(w.cfgPath)
		if err := os.WriteFile(w.cfgPath, []byte(s.NewSpec.Render()), 0o600); err != nil {
			w.Res.Trouble = err.Error()
			return
		}
		reloadTask = w.Sched.Go("reload", w.group, func() any { return w.Node.Reload("verif") })
		tasks = append([]*Task{reloadTask}, tasks...) // choice 0 = the reload while it runs
	}
	sw0 := w.Sched.Switches
	kind := w.Sched.InterleaveBlocking(tasks, s.Sched)
	w.Sched.SetArmed(nil)
	w.Sched.DetectBlocked = false
	if reloadTask != nil && kind == "done" {
		if ok, _ := reloadTask.Result.(bool); ok {
			w.Res.probe("race.reload.ok")
			w.Spec = s.NewSpec
		} else {
			w.add("C18.reload.refused", "C18", "ingress/race", "a reload of a configuration that differs from the running one by a comment only was refused")
			_ = os.WriteFile(w.cfgPath, oldFile, 0o600)
		}
	}
	if kind != "done" {
		if kind == "deadlock" {
			w.add("race.deadlock", "C09,C12", "ingress/race", "concurrent ingress requests are stuck waiting for one another")
			return
		}
		w.Res.Trouble = "race: " + kind + " " + w.Sched.Trouble
		return
	}
	w.Res.Inter = w.Sched.TraceString()
	if w.Sched.Switches-sw0 > 1 {
		w.Res.probe("race.interleaved")
	}
	accepted := map[string]int{}
	wantNew := map[string]int{} // route|target|payload -> count the accepted answers stand for
	partial := map[string]int{} // same, upper bound contributed by 503 answers (fan-out prefix)
	var sts []string
	for i, r := range rc {
		r.resp = w.finish(r.task, "done")
		sts = append(sts, fmt.Sprintf("%d", r.resp.Status))
		if r.resp.Status == 202 && r.key != "" {
			accepted[r.key]++
		}
		if r.rt != nil && (r.resp.Status == 202 || r.resp.Status == 503) {
			for _, tg := range r.rt.targets() {
				k := r.rt.Path + "|" + tg + "|" + string(r.body)
				if r.resp.Status == 202 {
					wantNew[k]++
				} else {
					partial[k]++
				}
			}
		}
		if r.resp.Status == 202 && r.rt == nil {
			w.add("C10.unreachable.accepted", "C10", "ingress/race", "racing request %d matches no inbound route but was accepted", i)
		}
	}
	// rate limit: whatever the order, the requests that got past the limiter at
	// this one instant must fit burst + rps x window
	if reloadTask != nil {
		// limiters are re-armed by a reload: requests on either side of it are
		// not in one window, and which side a racer was on is not observable
		w.armLimiters(now)
	}
	// in the order in which they went through the limiter
	byPass := append([]*racer(nil), rc...)
	sort.SliceStable(byPass, func(i, j int) bool { return passSeq[byPass[i].task] < passSeq[byPass[j].task] })
	for _, r := range byPass {
		if r.rt == nil || r.resp.Status == http.StatusTooManyRequests || reloadTask != nil {
			continue
		}
		lim := w.limiters[r.rt.Path]
		if lim == nil {
			lim = w.limiters[""]
		}
		if lim == nil {
			continue
		}
		// admitted at the instant it went through the limiter, if that was seen;
		// else somewhere between the start of the race and now
		lo, hi := now, w.Clock.Peek()
		if at, ok := passAt[r.task]; ok {
			lo, hi = at, at
			if c, ok := carried[r.task]; ok && c.Before(at) {
				lo = c
				w.Res.probe("race.overtaken_at_limiter")
			}
		}
		if slack := lim.slack(hi); slack < -1e-6 {
			w.Res.probe("race.rate_exceeded")
			w.add("C12.rate.exceeded", "C12", "ingress/race", "concurrent requests admitted beyond burst + rps x window (rps=%g burst=%g, %d admitted since %s, slack %.6f)", lim.rps, lim.burst, len(lim.admitted), lim.t0.Format("15:04:05.000"), slack)
		}
		lim.admit(lo, hi)
		w.Res.probe("race.ratelimited.admitted")
	}
	w.Res.logf("race of %d requests at %s -> %s (%d switches)", len(rc), now.Format("15:04:05"), strings.Join(sts, " "), w.Sched.Switches-sw0)
	for key, n := range accepted {
		prev := 0
		parts := strings.SplitN(key, "|", 3)
		if byNonce := w.nonces[parts[0]]; byNonce != nil {
			if rec := byNonce[parts[1]]; rec != nil {
				if ts, err := strconv.ParseInt(parts[2], 10, 64); err == nil && rec.accepted[ts] {
					prev = 1
				}
			}
		}
		if n+prev > 1 {
			w.Res.probe("race.replay_accepted")
			w.add("C09.replay.accepted", "C09,C08", "ingress/race", "the same signed request (route %s, nonce %q, timestamp %s) was honoured %d times when sent concurrently (%d earlier)", parts[0], parts[1], parts[2], n, prev)
		}
		if n+prev == 1 && n == 1 {
			w.Res.probe("race.one_of_duplicates_accepted")
		}
		// the steps after the race judge replays of what was honoured here
		if ts, err := strconv.ParseInt(parts[2], 10, 64); err == nil {
			if w.nonces[parts[0]] == nil {
				w.nonces[parts[0]] = map[string]*nonceRec{}
			}
			rec := w.nonces[parts[0]][parts[1]]
			if rec == nil {
				rec = &nonceRec{}
				w.nonces[parts[0]][parts[1]] = rec
			}
			if rec.accepted == nil {
				rec.accepted = map[int64]bool{}
			}
			rec.accepted[ts] = true
			if rt := w.Spec.route(parts[0]); rt != nil && rt.HMAC != nil {
				if exp := time.Unix(ts, 0).Add(hmacTolerance(rt.HMAC)); exp.After(rec.expiry) {
					rec.expiry = exp
				}
			}
		}
	}
	// a racer that was turned away may still have used up its nonce
	for _, r := range rc {
		if r.key == "" || r.rt == nil || r.rt.HMAC == nil {
			continue
		}
		parts := strings.SplitN(r.key, "|", 3)
		ts, err := strconv.ParseInt(parts[2], 10, 64)
		if err != nil {
			continue
		}
		if w.nonces[parts[0]] == nil {
			w.nonces[parts[0]] = map[string]*nonceRec{}
		}
		rec := w.nonces[parts[0]][parts[1]]
		if rec == nil {
			rec = &nonceRec{}
			w.nonces[parts[0]][parts[1]] = rec
		}
		if exp := time.Unix(ts, 0).Add(hmacTolerance(r.rt.HMAC)); exp.After(rec.expiry) {
			rec.expiry = exp
		}
	}
	after, err := w.Listing()
	if err != nil {
		w.add("C02.list.error", "C02", "ingress/race", "listing failed: %v", err)
		return
	}
	got := map[string]int{}
	for _, it := range after {
		if !known[it.ID] {
			got[it.Route+"|"+it.Target+"|"+string(it.Payload)]++
		}
	}
	for k, n := range got {
		if n > wantNew[k]+partial[k] {
			w.add("C08.race.extra", "C08,C02,C09", "ingress/race", "after the race the queue holds %d new message(s) %q, the accepted answers stand for %d", n, k, wantNew[k]+partial[k])
		}
	}
	for k, n := range wantNew {
		if got[k] < n && w.Spec.MaxDepth == 0 {
			w.add("C01.race.missing", "C01,C02", "ingress/race", "accepted answers stand for %d message(s) %q, the queue holds %d", n, k, got[k])
		}
	}
	// the steps that follow judge against the queue as the race left it (the
	// race's own effect on it has been judged above)
	present := map[string]bool{}
	for _, it := range after {
		present[it.ID] = true
	}
	for id := range w.Model.Msgs {
		if !present[id] {
			delete(w.Model.Msgs, id)
			w.Model.Gone[id] = "evicted"
		}
	}
	w.adoptUnexpected(w.Clock.Peek())
}

func sortInts(a []int) { sort.Ints(a) }

// FloodStep: s.Batch requests like s.Req, each with a nonce of its own and a
// signature that does not verify - other people's traffic between an original
// and its replay, in volume. None of them may be accepted; what they do to the
// replay cache shows when the steps that follow resend captured requests.
func (w *IngressWorld) FloodStep(s Step) {
	if s.Req == nil || s.Req.Sign == nil {
		w.Res.Trouble = "flood: needs a signed request"
		return
	}
	// only where the flood meets a replay cache: on a route that authenticates by HMAC
	{
		probe := *s.Req
		sg := *s.Req.Sign
		sg.Replay, sg.Mutate = 0, "sig_bit"
		probe.Sign = &sg
		nsent := len(w.sent)
		preq, err := w.buildRequest(&probe)
		w.sent = w.sent[:nsent]
		if err != nil {
			w.Res.logf("flood skipped: %v", err)
			return
		}
		idx, _, _ := refResolve(w.Spec, preq)
		if idx < 0 || w.Spec.Routes[idx].HMAC == nil {
			w.Res.logf("flood skipped: the request is not served by an HMAC route")
			return
		}
	}
	now := w.Clock.Peek()
	counts := map[int]int{}
	for i := 0; i < s.Batch; i++ {
		rs := *s.Req
		sg := *s.Req.Sign
		sg.Replay = 0
		sg.Nonce = fmt.Sprintf("%s-flood-%d", sg.Nonce, i)
		sg.Mutate = "sig_bit"
		rs.Sign = &sg
		nsent := len(w.sent)
		req, err := w.buildRequest(&rs)
		w.sent = w.sent[:nsent] // not a captured request
		if err != nil {
			w.Res.Trouble = "flood: " + err.Error()
			return
		}
		// served on this goroutine: nothing is interleaved with a flood, and a task
		// per request costs more than the request
		rec := httptest.NewRecorder()
		w.Ingress.ServeHTTP(rec, req)
		counts[rec.Code]++
		if rec.Code != http.StatusTooManyRequests {
			// it went through the rate limiter (the first thing a routed request meets)
			if idx, _, _ := refResolve(w.Spec, req); idx >= 0 {
				lim := w.limiters[w.Spec.Routes[idx].Path]
				if lim == nil {
					lim = w.limiters[""]
				}
				if lim != nil {
					lim.admit(now, now)
				}
			}
		}
		if rec.Code == http.StatusAccepted {
			w.add("C08.unauth.accepted", "C08", "ingress/flood", "request %d of a flood of requests with invalid signatures was accepted", i)
			w.adoptUnexpected(w.Clock.Peek())
			return
		}
	}
	w.Res.Ops++
	w.Res.probe("ingress.flood")
	w.Res.logf("flood of %d requests with fresh nonces and invalid signatures -> %v", s.Batch, counts)
}
