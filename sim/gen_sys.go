package sim

import (
	"encoding/json"
	"fmt"
	"strings"
	"time"

	"pgregory.net/rapid"
)

// IngressProfile steers the ingress-world generator for a property.
type IngressProfile struct {
	Auth      []string // kinds of auth to draw from: none basic hmac forward
	Channels  bool     // outbound / internal routes in the mix
	Match     bool     // match blocks
	Rate      bool
	Limits    bool // max_body / max_headers / queue limits
	Rotation  bool // secret_ref versions with validity windows
	Reload    bool
	MaxRoutes int
	MaxSteps  int
	Replay    bool // small nonce pool, window-edge arrival times
	Fanout    bool
	Backends  []string
	Race      bool // programs may end with concurrent requests
}

var sysPaths = []string{"/a", "/a/b", "/ab", "/hook", "/x/y", "/"}
var sysHosts = []string{"hooks.example.com", "api.example.com", "sub.hooks.example.com", "other.test"}
var sysTolerances = []time.Duration{time.Second, 5 * time.Second, time.Minute, 5 * time.Minute}

func genRoute(t *rapid.T, prof IngressProfile, path string, i int) RouteSpec {
	r := RouteSpec{Path: path}
	if prof.Channels {
		switch rapid.IntRange(0, 5).Draw(t, "channel") {
		case 0:
			r.Channel = "outbound"
		case 1:
			r.Channel = "internal"
		case 2:
			r.Channel = "inbound"
		}
	}
	switch r.Channel {
	case "outbound":
		r.Deliver = []DeliverSpec{{URL: fmt.Sprintf("https://t%d.example/out", i)}}
		return r
	case "internal":
		r.PullPath = fmt.Sprintf("/pull/r%d", i)
		return r
	}
	// mode
	if prof.Fanout && rapid.IntRange(0, 2).Draw(t, "mode") == 0 {
		n := rapid.IntRange(1, 3).Draw(t, "targets")
		for j := 0; j < n; j++ {
			r.Deliver = append(r.Deliver, DeliverSpec{URL: fmt.Sprintf("https://t%d.example/in%d", j, i)})
		}
	} else {
		r.PullPath = fmt.Sprintf("/pull/r%d", i)
	}
	switch rapid.SampledFrom(prof.Auth).Draw(t, "auth") {
	case "basic":
		r.Basic = []KV{{"alice", "s3cret"}}
		if rapid.Bool().Draw(t, "basic2") {
			r.Basic = append(r.Basic, KV{"bob", "hunter2"})
		}
	case "hmac":
		h := &HMACSpec{Tolerance: rapid.SampledFrom(sysTolerances).Draw(t, "tolerance")}
		if prof.Rotation && rapid.IntRange(0, 2).Draw(t, "rot") != 0 {
			h.SecretRefs = []string{"S1", "S2"}
			if rapid.Bool().Draw(t, "rot+inline") {
				h.Secrets = []string{"inline-key"}
			}
		} else {
			h.Secrets = []string{"key-one"}
			if rapid.Bool().Draw(t, "two") {
				h.Secrets = append(h.Secrets, "key-two")
			}
		}
		if rapid.IntRange(0, 3).Draw(t, "hdrnames") == 0 {
			h.SigHeader, h.TSHeader, h.NonceHdr = "X-Hub-Sig", "X-Hub-Ts", "X-Hub-Nonce"
		}
		r.HMAC = h
	case "forward":
		r.Forward = &ForwardSpec{URL: "https://auth.example/check", Timeout: 30 * time.Second}
		if rapid.Bool().Draw(t, "copy") {
			r.Forward.CopyHeaders = []string{"X-User-Id"}
		}
	}
	if prof.Match && rapid.IntRange(0, 2).Draw(t, "match?") != 0 {
		m := &MatchSpec{}
		switch rapid.IntRange(0, 3).Draw(t, "methods") {
		case 0:
			m.Methods = []string{"POST", "PUT"}
		case 1:
			m.Methods = []string{"GET"}
		}
		switch rapid.IntRange(0, 8).Draw(t, "hosts") {
		case 0:
			m.Hosts = []string{"hooks.example.com"}
		case 1:
			m.Hosts = []string{"*.example.com"}
		case 2:
			m.Hosts = []string{"*"}
		case 3: // lists: every entry counts, whatever its position
			m.Hosts = []string{"*.example.com", "example.com"}
		case 4:
			m.Hosts = []string{"*.hooks.example.com", "other.test", "api.example.com"}
		case 5:
			m.Hosts = []string{"other.test", "*.example.com"}
		case 6:
			m.Hosts = []string{"*.test", "*.example.com", "hooks.example.com"}
		}
		if rapid.IntRange(0, 3).Draw(t, "hdr") == 0 {
			m.Headers = []KV{{"X-Kind", "push"}}
		}
		if rapid.IntRange(0, 4).Draw(t, "hdrex") == 0 {
			m.HeaderExists = []string{"X-Delivery"}
		}
		if rapid.IntRange(0, 4).Draw(t, "query") == 0 {
			m.Query = []KV{{"env", "prod"}}
		}
		if rapid.IntRange(0, 5).Draw(t, "queryex") == 0 {
			m.QueryExists = []string{"tok"}
		}
		if rapid.IntRange(0, 4).Draw(t, "remote") == 0 {
			m.RemoteIPs = []string{"198.51.100.0/24", "2001:db8::/32"}
		}
		r.Match = m
	}
	if prof.Rate && rapid.IntRange(0, 2).Draw(t, "rate?") == 0 {
		r.Rate = &RateSpec{RPS: rapid.SampledFrom([]float64{1, 2, 0.5, 10}).Draw(t, "rps"), Burst: rapid.SampledFrom([]int{0, 1, 2, 3}).Draw(t, "burst")}
	}
	if prof.Limits && rapid.IntRange(0, 2).Draw(t, "limits?") == 0 {
		r.MaxBody = rapid.SampledFrom([]int{0, 8, 64}).Draw(t, "max_body")
		r.MaxHeaders = rapid.SampledFrom([]int{0, 96, 256}).Draw(t, "max_headers")
	}
	return r
}

func genSysSpec(t *rapid.T, prof IngressProfile) *SysSpec {
	s := &SysSpec{Backend: rapid.SampledFrom(prof.Backends).Draw(t, "backend")}
	s.PullTokens = []string{"pull-token-1"}
	maxR := prof.MaxRoutes
	if maxR == 0 {
		maxR = 4
	}
	n := rapid.IntRange(1, maxR).Draw(t, "routes")
	perm := rapid.Permutation(sysPaths).Draw(t, "paths")
	for i := 0; i < n && i < len(perm); i++ {
		s.Routes = append(s.Routes, genRoute(t, prof, perm[i], i))
	}
	if prof.Match && rapid.IntRange(0, 3).Draw(t, "named?") == 0 {
		// named matchers, attached singly and in pairs, with and without a match
		// block of the route's own; lists of three entries included
		pool := []NamedMatcherSpec{
			{Name: "h3", Match: MatchSpec{Hosts: []string{"hooks.example.com", "*.hooks.example.com", "api.example.com"}}},
			{Name: "h1", Match: MatchSpec{Hosts: []string{"other.test"}}},
			{Name: "h1b", Match: MatchSpec{Hosts: []string{"extra.test"}}},
			{Name: "m3", Match: MatchSpec{Methods: []string{"POST", "PUT", "PATCH"}}},
			{Name: "mdel", Match: MatchSpec{Methods: []string{"DELETE"}}},
			{Name: "mget", Match: MatchSpec{Methods: []string{"GET"}}},
			{Name: "ip3", Match: MatchSpec{RemoteIPs: []string{"198.51.100.0/24", "2001:db8::/32", "192.0.2.0/24"}}},
			{Name: "ip1", Match: MatchSpec{RemoteIPs: []string{"203.0.113.0/24"}}},
			{Name: "ip1b", Match: MatchSpec{RemoteIPs: []string{"10.9.0.0/16"}}},
			{Name: "hdr", Match: MatchSpec{Headers: []KV{{"X-Kind", "push"}}}},
			{Name: "qex", Match: MatchSpec{QueryExists: []string{"tok"}}},
		}
		s.Matchers = pool
		families := [][]string{{"h3", "h1", "h1b"}, {"m3", "mdel", "mget"}, {"ip3", "ip1", "ip1b"}}
		fam := rapid.SampledFrom(families).Draw(t, "named.family")
		for i := range s.Routes {
			r := &s.Routes[i]
			if r.Channel == "outbound" || r.Channel == "internal" {
				continue
			}
			switch rapid.IntRange(0, 5).Draw(t, "named.use") {
			case 0:
			case 1:
				r.MatchRefs = []string{rapid.SampledFrom(pool).Draw(t, "named.one").Name}
			case 2:
				r.MatchRefs = []string{fam[0], fam[1+rapid.IntRange(0, 1).Draw(t, "named.second")], rapid.SampledFrom([]string{"hdr", "qex"}).Draw(t, "named.third")}
			default:
				r.MatchRefs = []string{fam[0], fam[1+rapid.IntRange(0, 1).Draw(t, "named.second")]}
			}
			if len(r.MatchRefs) > 0 && rapid.IntRange(0, 2).Draw(t, "named.noinline") != 0 {
				r.Match = nil
			}
		}
	}
	if prof.Rotation {
		until := int64(3600)
		s.Secrets = []SecretSpec{
			{ID: "S1", Value: "rot-key-1", ValidFrom: -7200, ValidUntil: &until},
			{ID: "S2", Value: "rot-key-2", ValidFrom: 1800},
		}
	}
	if prof.Rate && rapid.IntRange(0, 3).Draw(t, "grate?") == 0 {
		s.IngressRate = &RateSpec{RPS: rapid.SampledFrom([]float64{1, 2, 5}).Draw(t, "grps"), Burst: rapid.SampledFrom([]int{0, 1, 2}).Draw(t, "gburst")}
	}
	if prof.Limits {
		if rapid.IntRange(0, 2).Draw(t, "glimits?") == 0 {
			s.MaxBody = rapid.SampledFrom([]int{16, 128}).Draw(t, "gmax_body")
			s.MaxHeaders = rapid.SampledFrom([]int{128, 512}).Draw(t, "gmax_headers")
		}
		if rapid.IntRange(0, 2).Draw(t, "depth?") == 0 {
			s.MaxDepth = rapid.IntRange(1, 4).Draw(t, "max_depth")
			s.DropPolicy = rapid.SampledFrom([]string{"reject", "drop_oldest"}).Draw(t, "drop")
		}
	}
	return s
}

var reqPathsFor = func(base string) []string {
	if base == "/" {
		return []string{"/", "/anything", "/a/b/c"}
	}
	return []string{base, base, base, base + "/", base + "/child", base + "/../" + base[1:], base + "/./", base + "x", "/./" + base[1:], "/zzz", upperFirst(base), "/" + base}
}

func upperFirst(p string) string {
	if len(p) > 1 && p[1] >= 'a' && p[1] <= 'z' {
		return "/" + string(p[1]-32) + p[2:]
	}
	return p
}

func genReq(t *rapid.T, spec *SysSpec, prof IngressProfile) *ReqSpec {
	ri := rapid.IntRange(0, len(spec.Routes)-1).Draw(t, "aim")
	r := &spec.Routes[ri]
	rs := &ReqSpec{Route: ri, Method: "POST", Host: "hooks.example.com"}
	rs.Path = rapid.SampledFrom(reqPathsFor(r.Path)).Draw(t, "path")
	m := spec.matchOf(r)
	// satisfy the match block, then maybe break one criterion
	if m != nil {
		if len(m.Methods) > 0 {
			rs.Method = m.Methods[rapid.IntRange(0, len(m.Methods)-1).Draw(t, "method.entry")]
		}
		if len(m.Hosts) > 0 && rapid.IntRange(0, 2).Draw(t, "host.entry?") != 0 {
			// any entry of the list, wildcards made concrete
			h := m.Hosts[rapid.IntRange(0, len(m.Hosts)-1).Draw(t, "host.entry")]
			switch {
			case h == "*":
				h = "hooks.example.com"
			case strings.HasPrefix(h, "*."):
				// a sub-domain, a deeper one, and the near misses: the bare domain,
				// a longer name that merely ends in the domain's characters, the
				// domain as a label of somebody else's name
				d := h[2:]
				h = rapid.SampledFrom([]string{"sub." + d, "sub." + d, "a.b." + d, "SUB." + strings.ToUpper(d) + ".:8443", d, "evil" + d, "evil-" + d + ":443", "x" + d + ".", d + ".attacker.test", "." + d}).Draw(t, "host.wild")
			}
			rs.Host = h
		}
		if len(m.RemoteIPs) > 0 && rapid.IntRange(0, 2).Draw(t, "remote.entry?") != 0 {
			rs.Remote = map[string]string{"198.51.100.0/24": "198.51.100.7:4000", "2001:db8::/32": "[2001:db8::9]:4000", "192.0.2.0/24": "192.0.2.44:4000",
				"203.0.113.0/24": "203.0.113.9:4000", "10.9.0.0/16": "10.9.3.3:4000"}[m.RemoteIPs[rapid.IntRange(0, len(m.RemoteIPs)-1).Draw(t, "remote.entry")]]
			// the same peer as a dual-stack listener reports it (IPv4-mapped), the last address of the
			// prefix, and the first address past it
			switch rapid.IntRange(0, 5).Draw(t, "remote.shape") {
			case 0:
				if !strings.HasPrefix(rs.Remote, "[") {
					rs.Remote = "[::ffff:" + rs.Remote[:strings.LastIndex(rs.Remote, ":")] + "]" + rs.Remote[strings.LastIndex(rs.Remote, ":"):]
				}
			case 1:
				rs.Remote = map[string]string{"198.51.100.7:4000": "198.51.100.255:1", "[2001:db8::9]:4000": "[2001:db8:ffff:ffff:ffff:ffff:ffff:ffff]:65535", "192.0.2.44:4000": "192.0.2.0:4000",
					"203.0.113.9:4000": "[::ffff:203.0.113.255]:4000", "10.9.3.3:4000": "10.9.255.255:4000"}[rs.Remote]
			case 2:
				rs.Remote = map[string]string{"198.51.100.7:4000": "198.51.101.0:4000", "[2001:db8::9]:4000": "[2001:db9::]:4000", "192.0.2.44:4000": "[::ffff:192.0.3.0]:4000",
					"203.0.113.9:4000": "203.0.112.255:4000", "10.9.3.3:4000": "10.10.0.0:4000"}[rs.Remote]
			}
		}
		for _, kv := range m.Headers {
			rs.Headers = append(rs.Headers, kv)
		}
		for _, h := range m.HeaderExists {
			rs.Headers = append(rs.Headers, KV{h, "1"})
		}
		for _, kv := range m.Query {
			rs.Query += kv.Name + "=" + kv.Value + "&"
		}
		for _, k := range m.QueryExists {
			rs.Query += k + "=1&"
		}
	}
	switch rapid.IntRange(0, 11).Draw(t, "break") {
	case 0:
		rs.Method = rapid.SampledFrom([]string{"GET", "PUT", "DELETE", "PATCH", "post"}).Draw(t, "method")
	case 1:
		rs.Host = rapid.SampledFrom(append([]string{"HOOKS.example.com:8443", "hooks.example.com.", "example.com", "evil.hooks.example.com.attacker.test", "", "extra.test"}, sysHosts...)).Draw(t, "host")
	case 2:
		rs.Headers = nil
	case 3:
		rs.Query = ""
	case 4:
		rs.Remote = rapid.SampledFrom([]string{"203.0.113.9:1234", "[2001:db8::1]:443", "[::ffff:198.51.100.9]:80", "198.51.100.200:9", "192.0.2.1:9", "10.9.1.1:9"}).Draw(t, "remote")
	case 5:
		rs.Headers = append(rs.Headers, KV{"X-Kind", "other"})
	}
	// body
	maxBody, _ := spec.limitsFor(r)
	switch rapid.IntRange(0, 7).Draw(t, "body") {
	case 0:
		rs.Body = nil
	case 1:
		if maxBody <= 4096 {
			rs.Body = make([]byte, maxBody)
		}
	case 2:
		if maxBody < 4096 {
			rs.Body = make([]byte, maxBody+1)
		}
	case 3:
		rs.Body = []byte{0x00, 0xff, 0xfe, '\r', '\n', 0x80}
	default:
		rs.Body = []byte(fmt.Sprintf("b%d", rapid.IntRange(0, 99).Draw(t, "bodytok")))
	}
	if rapid.IntRange(0, 3).Draw(t, "chunked") == 0 {
		rs.Chunked = true
	}
	if rapid.IntRange(0, 5).Draw(t, "extrahdr") == 0 {
		rs.Headers = append(rs.Headers, KV{"X-Pad", string(make([]byte, 0)) + "ppppppppppppppppppppppppppppppppppppppppppppppppppppppppppppppppppppppppppppppppppppppppppppppp"})
	}
	if rapid.IntRange(0, 6).Draw(t, "cookie") == 0 {
		rs.Headers = append(rs.Headers, KV{"Cookie", "sid=1"}, KV{"Proxy-Authorization", "Basic eDp5"})
	}
	if rapid.IntRange(0, 6).Draw(t, "rephdr") == 0 {
		rs.Headers = append(rs.Headers, KV{"X-Rep", "a"}, KV{"x-rep", "b"})
	}
	// credentials
	if len(r.Basic) > 0 {
		last := r.Basic[len(r.Basic)-1]
		switch rapid.IntRange(0, 8).Draw(t, "basic") {
		case 0:
		case 1:
			rs.Basic = &KV{"alice", "wrong"}
		case 2:
			rs.Basic = &KV{"mallory", "s3cret"}
		case 3:
			rs.Basic = &KV{"alice", "s3cret "}
		case 4:
			// one configured user with another configured user's password
			rs.Basic = &KV{r.Basic[0].Name, last.Value}
		case 5:
			rs.Basic = &KV{last.Name, r.Basic[0].Value}
		case 6:
			rs.Basic = &KV{last.Name, last.Value}
		default:
			rs.Basic = &KV{r.Basic[0].Name, r.Basic[0].Value}
		}
	}
	if r.HMAC != nil || rapid.IntRange(0, 9).Draw(t, "sign-anyway") == 0 {
		h := r.HMAC
		if h == nil {
			h = &HMACSpec{Secrets: []string{"key-one"}}
		}
		sg := &SignReq{}
		var pool []string
		pool = append(pool, h.Secrets...)
		for _, ref := range h.SecretRefs {
			for _, sc := range spec.Secrets {
				if sc.ID == ref {
					pool = append(pool, sc.Value)
				}
			}
		}
		pool = append(pool, "wrong-key")
		sg.Secret = rapid.SampledFrom(pool).Draw(t, "secret")
		tol := int64(hmacTolerance(h) / time.Second)
		offs := []int64{0, 0, 0, -1, 1, -tol, tol, -tol - 1, tol + 1, -tol + 1, tol - 1}
		sg.TSOff = rapid.SampledFrom(offs).Draw(t, "tsoff")
		if prof.Replay {
			sg.Nonce = rapid.SampledFrom([]string{"n1", "n1", "n2", "n3"}).Draw(t, "nonce")
		} else {
			sg.Nonce = fmt.Sprintf("n%d", rapid.IntRange(0, 30).Draw(t, "nonce"))
		}
		if prof.Replay && rapid.IntRange(0, 2).Draw(t, "replay?") == 0 {
			sg.Replay = rapid.IntRange(1, 3).Draw(t, "replayk")
		}
		if rapid.IntRange(0, 3).Draw(t, "mut?") == 0 {
			sg.Mutate = rapid.SampledFrom([]string{"sig_bit", "body_bit", "path", "method", "drop_sig", "drop_ts", "drop_nonce", "bad_ts", "upper_sig"}).Draw(t, "mutate")
		}
		rs.Sign = sg
	}
	if r.Forward != nil {
		switch rapid.IntRange(0, 9).Draw(t, "fwd") {
		case 0:
			rs.Fwd = &NetAction{Kind: "status", Status: 401}
		case 1:
			rs.Fwd = &NetAction{Kind: "status", Status: 403}
		case 2:
			rs.Fwd = &NetAction{Kind: "status", Status: rapid.SampledFrom([]int{199, 300, 302, 400, 404, 500, 503}).Draw(t, "fwdst")}
		case 3:
			rs.Fwd = &NetAction{Kind: rapid.SampledFrom([]string{"refused", "reset", "hang", "resp_lost"}).Draw(t, "fwdkind")}
		case 4:
			rs.Fwd = &NetAction{Kind: "status", Status: 204, Headers: map[string]string{"X-User-Id": "u42"}}
		case 5:
			// a long copied header: what is stored (and measured against
			// max_headers) is the merged set, the service's value replacing the client's
			rs.Fwd = &NetAction{Kind: "status", Status: 200, Headers: map[string]string{"X-User-Id": strings.Repeat("u", rapid.SampledFrom([]int{40, 90, 200, 300}).Draw(t, "fwdlong"))}}
		default:
			rs.Fwd = &NetAction{Kind: "status", Status: 200, Headers: map[string]string{"X-User-Id": "u7"}}
		}
		if rapid.IntRange(0, 2).Draw(t, "fwd.clienthdr") == 0 {
			// the client sends the header the auth service is going to overwrite
			rs.Headers = append(rs.Headers, KV{"X-User-Id", rapid.SampledFrom([]string{"c", "client-chosen-subject"}).Draw(t, "fwd.clientval")})
		}
	}
	return rs
}

func genReloadSpec(t *rapid.T, spec *SysSpec, profs ...IngressProfile) *SysSpec {
	b, _ := json.Marshal(spec)
	var ns SysSpec
	_ = json.Unmarshal(b, &ns)
	kinds := 3
	var prof IngressProfile
	if len(profs) > 0 && profs[0].Match {
		// route-table changes: a route drawn afresh (new match criteria, auth,
		// channel), removed, added, moved
		prof = profs[0]
		kinds = 7
	}
	switch rapid.IntRange(0, kinds).Draw(t, "reloadkind") {
	case 4:
		i := rapid.IntRange(0, len(ns.Routes)-1).Draw(t, "regen")
		old := ns.Routes[i]
		ns.Routes[i] = genRoute(t, prof, old.Path, i)
		// the queue side of a route stays (mode changes are another matter)
		ns.Routes[i].PullPath, ns.Routes[i].Deliver, ns.Routes[i].Concurrency = old.PullPath, old.Deliver, old.Concurrency
		if (ns.Routes[i].Channel == "outbound") != (old.Channel == "outbound") || (ns.Routes[i].Channel == "internal") != (old.Channel == "internal") {
			ns.Routes[i].Channel = old.Channel
		}
	case 5:
		if len(ns.Routes) > 1 {
			i := rapid.IntRange(0, len(ns.Routes)-1).Draw(t, "remove")
			ns.Routes = append(ns.Routes[:i], ns.Routes[i+1:]...)
		} else {
			ns.Comment = "r"
		}
	case 6:
		used := map[string]bool{}
		for _, r := range ns.Routes {
			used[r.Path] = true
		}
		added := false
		for _, pth := range sysPaths {
			if !used[pth] {
				nr := genRoute(t, prof, pth, 7)
				if nr.Channel == "" || nr.Channel == "inbound" {
					at := rapid.IntRange(0, len(ns.Routes)).Draw(t, "addat")
					ns.Routes = append(ns.Routes[:at], append([]RouteSpec{nr}, ns.Routes[at:]...)...)
					added = true
				}
				break
			}
		}
		if !added {
			ns.Comment = "a"
		}
	case 7:
		if len(ns.Routes) > 1 {
			i := rapid.IntRange(0, len(ns.Routes)-2).Draw(t, "swap")
			ns.Routes[i], ns.Routes[i+1] = ns.Routes[i+1], ns.Routes[i]
		} else {
			ns.Comment = "s"
		}
	case 0:
		ns.Comment = "touched " + fmt.Sprint(rapid.IntRange(0, 9).Draw(t, "touch"))
	case 1:
		ns.PullTokens = append(ns.PullTokens, "pull-token-2")
	case 2:
		if len(ns.Routes) > 0 && ns.Routes[0].HMAC != nil {
			ns.Routes[0].HMAC.Tolerance = rapid.SampledFrom(sysTolerances).Draw(t, "newtol")
		} else {
			ns.Comment = "x"
		}
	case 3:
		if len(ns.Routes) > 0 && ns.Routes[0].Channel == "" && ns.Routes[0].Rate == nil {
			ns.Routes[0].Rate = &RateSpec{RPS: 1, Burst: 1}
		} else {
			ns.Comment = "y"
		}
	}
	return &ns
}

// GenIngressProgram draws an ingress-world program.
func GenIngressProgram(t *rapid.T, prof IngressProfile) *Program {
	p := &Program{World: "ingress"}
	spec := genSysSpec(t, prof)
	p.Sys, _ = json.Marshal(ingressSys{Spec: spec})
	p.Offset = rapid.SampledFrom([]int64{0, 0, 500_000_000, 999_999_999}).Draw(t, "clock_offset")
	max := prof.MaxSteps
	if max == 0 {
		max = 25
	}
	advances := []time.Duration{time.Millisecond, 500 * time.Millisecond, time.Second, time.Second, 4 * time.Second, 5 * time.Second, 59 * time.Second, time.Minute, 299 * time.Second, 5 * time.Minute, 301 * time.Second, time.Hour}
	cur := spec
	n := rapid.IntRange(1, max).Draw(t, "nsteps")
	for i := 0; i < n; i++ {
		k := rapid.IntRange(0, 19).Draw(t, "kind")
		switch {
		case k < 13:
			rq := genReq(t, cur, prof)
			p.Steps = append(p.Steps, Step{Op: "ingress", Req: rq})
			if prof.Race && rq.Sign != nil && rq.Sign.Replay == 0 && rapid.IntRange(0, 1499).Draw(t, "flood?") == 7 {
				// other people's traffic in volume between a request and its replay
				fl := *rq
				p.Steps = append(p.Steps, Step{Op: "flood", Req: &fl, Batch: rapid.SampledFrom([]int{300, 1100, 4200}).Draw(t, "flood.n")})
				again := *rq
				sg := *rq.Sign
				sg.Replay = 1
				again.Sign = &sg
				p.Steps = append(p.Steps, Step{Op: "ingress", Req: &again})
			}
			if prof.Replay && rq.Sign != nil && rq.Sign.Replay == 0 && rq.Route < len(cur.Routes) && cur.Routes[rq.Route].HMAC != nil && rapid.IntRange(0, 11).Draw(t, "stagger?") == 0 {
				// expiry instants out of arrival order: X signed now, A signed almost a tolerance ago
				// (its entry lapses first although it arrived second), A's nonce used again by B once A
				// has lapsed, then - when X has lapsed and B has not - B once more
				tol := hmacTolerance(cur.Routes[rq.Route].HMAC)
				d1 := rapid.SampledFrom([]time.Duration{time.Second, 5 * time.Second, time.Minute}).Draw(t, "stagger.d1")
				if d1 >= tol {
					d1 = time.Second
				}
				mk := func(nonce string, off time.Duration, replay int) Step {
					c := *rq
					sg := *rq.Sign
					sg.Nonce, sg.TSOff, sg.Mutate, sg.Replay = nonce, int64(off/time.Second), "", replay
					c.Sign = &sg
					return Step{Op: "ingress", Req: &c}
				}
				p.Steps = append(p.Steps, mk("nx", 0, 0), mk("n1", -(tol - d1), 0), Step{Op: "advance", D: d1 + time.Second}, mk("n1", 0, 0),
					Step{Op: "advance", D: tol - d1}, mk("n1", 0, 1))
			}
		case k < 18 || !prof.Reload:
			p.Steps = append(p.Steps, Step{Op: "advance", D: rapid.SampledFrom(advances).Draw(t, "d")})
		default:
			ns := genReloadSpec(t, cur, prof)
			p.Steps = append(p.Steps, Step{Op: "reload", NewSpec: ns})
			cur = ns
		}
	}
	if prof.Race && rapid.IntRange(0, 2).Draw(t, "race?") != 0 {
		// end with a race: one request (usually a valid signed one) sent two or
		// three times at once, or a captured one replayed alongside a new one
		base := genReq(t, cur, prof)
		st := Step{Op: "race", Reqs: []ReqSpec{*base}}
		for k := rapid.IntRange(1, 2).Draw(t, "race.n"); k > 0; k-- {
			if rapid.IntRange(0, 3).Draw(t, "race.other") == 0 {
				st.Reqs = append(st.Reqs, *genReq(t, cur, prof))
			} else {
				st.Reqs = append(st.Reqs, *base)
			}
		}
		type seg struct{ who, n int }
		segs := rapid.SliceOfN(rapid.Custom(func(t *rapid.T) seg {
			return seg{rapid.IntRange(0, 2).Draw(t, "who"), rapid.SampledFrom([]int{1, 1, 2, 3, 5, 8, 13, 21, 34}).Draw(t, "len")}
		}), 0, 10).Draw(t, "race.sched")
		for _, sg := range segs {
			for i := 0; i < sg.n && len(st.Sched) < 200; i++ {
				st.Sched = append(st.Sched, sg.who)
			}
		}
		if prof.Reload && !prof.Rate && rapid.IntRange(0, 2).Draw(t, "race.reload?") == 0 {
			// a reload (of a file that differs by a comment only) runs alongside
			// the requests; afterwards the captured requests are sent again
			b, _ := json.Marshal(cur)
			var ns SysSpec
			_ = json.Unmarshal(b, &ns)
			ns.Comment = "touched during a race " + fmt.Sprint(rapid.IntRange(0, 9).Draw(t, "race.touch"))
			st.NewSpec = &ns
			p.Steps = append(p.Steps, st)
			for k := rapid.IntRange(1, 3).Draw(t, "race.after"); k > 0; k-- {
				after := *base
				if after.Sign != nil {
					sg := *after.Sign
					sg.Replay = rapid.IntRange(1, 3).Draw(t, "race.after.replay")
					after.Sign = &sg
				}
				p.Steps = append(p.Steps, Step{Op: "ingress", Req: &after})
			}
			return p
		}
		if prof.Rate && rapid.IntRange(0, 2).Draw(t, "race.tick?") != 0 {
			// the clock moves while the requests are in flight; afterwards the same
			// request again, a few times: whatever the race did to a limiter's
			// bookkeeping shows in what it admits next
			st.D = rapid.SampledFrom([]time.Duration{50 * time.Millisecond, 100 * time.Millisecond, 200 * time.Millisecond, 300 * time.Millisecond, time.Second}).Draw(t, "race.tick")
			p.Steps = append(p.Steps, st)
			for k := rapid.IntRange(1, 4).Draw(t, "race.after.n"); k > 0; k-- {
				if rapid.Bool().Draw(t, "race.after.adv?") {
					p.Steps = append(p.Steps, Step{Op: "advance", D: rapid.SampledFrom([]time.Duration{time.Millisecond, 200 * time.Millisecond, time.Second}).Draw(t, "race.after.d")})
				}
				after := *base
				p.Steps = append(p.Steps, Step{Op: "ingress", Req: &after})
			}
			return p
		}
		p.Steps = append(p.Steps, st)
	}
	return p
}
