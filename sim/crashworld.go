package sim

// W-crash: a SQLite store on the simulated disk, driven sequentially, with
// crashes (kill / power loss) and disk faults at arbitrary disk operations.
// After every restart the recovery oracle of C01 runs.

import (
	"context"
	"fmt"
	"os"
	"path/filepath"
	"time"

	"github.com/nuetzliches/hookaido/internal/queue"
	"pgregory.net/rapid"
)

type crashSentinel struct{}

type CrashWorld struct {
	*StoreWorld
	prog       *Program
	stepStart  []int // disk op count at the start of each step
	stepIdx    int
	fired      map[int]bool
	pending    *Fault // crash requested by the fault plan, to be carried out
	busyNext   bool   // the next store call meets a held write lock
	busyOp     bool
	gen        int
	base       string
	totalOps   int // disk ops over all incarnations
	opsBase    int
	restarts   int
	crashAgain bool
	faultsOff  bool
}

func (w *CrashWorld) diskOps() int { return w.opsBase + w.Disk.Ops }

func (w *CrashWorld) decide(kind, path string, n int) DiskDecision {
	// called with the disk lock held; w.Disk.Ops already counts this operation
	idx := w.diskOps() - 1
	if w.faultsOff {
		return DiskContinue
	}
	for i := range w.prog.Faults {
		f := &w.prog.Faults[i]
		if w.fired[i] || f.Site != "disk" {
			continue
		}
		if f.AfterStep < 0 {
			// first start: the Hit-th disk operation of the very first open
			// (creation of the file, migration)
			if w.stepIdx >= 0 || idx != f.Hit {
				continue
			}
		} else {
			if f.AfterStep > w.stepIdx || f.AfterStep >= len(w.stepStart) {
				continue
			}
			if idx != w.stepStart[f.AfterStep]+f.Hit {
				continue
			}
		}
		w.fired[i] = true
		w.Res.fault(f.Action)
		w.Res.logf("  fault %s at disk op %d (%s %s %d bytes)", f.Action, idx, kind, filepath.Base(path), n)
		switch f.Action {
		case "crash.kill", "crash.powerloss":
			w.pending = f
			if w.phase == "op" {
				w.Res.probe("crash.inside." + kind)
			}
			return DiskCrash
		case "eio":
			w.faultInStep = true
			return DiskEIO
		case "full":
			w.faultInStep = true
			if kind == "write" {
				return DiskFull
			}
			return DiskEIO
		case "short":
			w.faultInStep = true
			if kind == "write" {
				return DiskShort
			}
			return DiskEIO
		}
	}
	return DiskContinue
}

func (w *CrashWorld) wrap(inner queue.Store) queue.Store {
	return &SimStore{Inner: inner, After: func(string) {
		if w.busyOp {
			// the other process releases the write lock once the call has returned
			w.busyOp = false
			w.Disk.SetBusy(false)
			if w.Disk.BusyRefusals > 0 {
				w.Res.probe("crash.write_lock_contention")
			}
		}
		if w.Disk.Dead() {
			panic(crashSentinel{})
		}
	}}
}

func (w *CrashWorld) open() error {
	w.gen++
	dir := filepath.Join(w.base, fmt.Sprintf("gen%d", w.gen))
	if err := os.MkdirAll(dir, 0o755); err != nil {
		return err
	}
	return w.openIn(dir)
}

func (w *CrashWorld) openIn(dir string) error {
	w.Disk = NewDisk(dir)
	w.Disk.Decide = w.decide
	w.dbPath = filepath.Join(dir, "q.db")
	st, cl, err := openStore(w.Cfg, w.Clock, w.dbPath)
	if err != nil {
		return err
	}
	w.Store, w.closeFn = w.wrap(st), cl
	w.inner = st
	return nil
}

// restart builds the post-crash image, reopens the store on it and runs the
// recovery oracle. inDoubt: the operation that was in flight (nil: quiescent).
func (w *CrashWorld) restart(action string, seed int64, duringOp bool) {
	r := w.Res
	w.restarts++
	old, oldClose := w.Disk, w.closeFn
	old.Kill()
	w.opsBase += old.Ops
	w.gen++
	dir := filepath.Join(w.base, fmt.Sprintf("gen%d", w.gen))
	if err := os.MkdirAll(dir, 0o755); err != nil {
		r.Trouble = err.Error()
		return
	}
	power := action == "crash.powerloss"
	pend := old.PendingWrites()
	applied, dropped, torn, err := old.Image(dir, power, seed)
	if err != nil {
		r.Trouble = "image: " + err.Error()
		return
	}
	old.Release()
	if oldClose != nil {
		go func() { _ = oldClose() }() // releases descriptors; cannot reach the (dead) disk
	}
	if power {
		r.logf("restart #%d after power loss: %d unsynced writes (%d applied, %d dropped, %d torn)", w.restarts, pend, applied, dropped, torn)
		if pend > 0 {
			r.probe("powerloss.with_unsynced_writes")
		}
		if torn > 0 {
			r.probe("powerloss.torn_write")
		}
	} else {
		r.logf("restart #%d after kill", w.restarts)
	}
	// what was in flight is in doubt; so is every operation that failed after
	// an injected disk fault since the last restart (its frames may sit in the
	// WAL and be replayed by this recovery)
	ling := w.lingering
	w.lingering = nil
	if len(ling) > 4 {
		ling = ling[len(ling)-4:]
	}
	inflight := w.assume
	if !duringOp {
		inflight = nil
	}
	for mask := 0; mask < 1<<len(ling); mask++ {
		m := w.Model.Clone()
		for i, f := range ling {
			if mask&(1<<i) != 0 {
				f(m)
			}
		}
		if mask != 0 {
			w.variants = append(w.variants, m)
		}
		if inflight != nil {
			m2 := m.Clone()
			inflight(m2)
			w.variants = append(w.variants, m2)
		}
	}
	if inflight != nil {
		r.probe("crash.op_in_doubt")
	}
	if len(ling) > 0 {
		r.probe("crash.with_lingering_failed_ops")
	}
	w.assume = nil
	w.loc = "sqlite/restart"
	if err := w.openIn(dir); err != nil {
		if w.Disk.Dead() || w.faultInStep {
			// an injected fault hit the recovery itself: not the product's fault; crash again
			r.probe("fault.during.recovery")
			w.faultInStep = false
			w.crashAgain = true
			return
		}
		v := viol("C01.reopen", "C01", "the queue refuses to open after a crash: %v", err)
		w.add([]Violation{v})
		r.Trouble = "" // a violation, not trouble; but the run cannot continue
		w.Store = nil
		return
	}
	w.checkIntegrity()
	w.observe(fmt.Sprintf("restart#%d", w.restarts), false)
}

// restartLoop carries out a restart and, if an injected fault hits the recovery
// or the first listing, restarts again (bounded).
func (w *CrashWorld) restartLoop(action string, seed int64, duringOp bool) {
	for i := 0; i < 6; i++ {
		w.crashAgain = false
		crashed := func() (c bool) {
			defer func() {
				if rec := recover(); rec != nil {
					if _, ok := rec.(crashSentinel); ok {
						c = true
						return
					}
					panic(rec)
				}
			}()
			w.restart(action, seed, duringOp)
			return false
		}()
		if !crashed && !w.crashAgain {
			return
		}
		w.Res.probe("crash.during.recovery")
		duringOp = false
		if w.pending != nil {
			action, seed = w.pending.Action, w.pending.ImgSeed
		}
		if w.Disk != nil && !w.Disk.Dead() && w.crashAgain {
			// open failed on an injected I/O error without a crash: treat as a kill
			action = "crash.kill"
		}
	}
	w.Res.Trouble = "more than 6 consecutive crashes during recovery"
}

func (w *CrashWorld) checkIntegrity() {
	s, ok := w.inner.(*queue.SQLiteStore)
	if !ok {
		return
	}
	db := s.VerifDB()
	ctx := context.Background()
	var res string
	if err := db.QueryRowContext(ctx, "PRAGMA integrity_check;").Scan(&res); err != nil || res != "ok" {
		w.add([]Violation{viol("C01.integrity", "C01", "PRAGMA integrity_check after restart: %q err=%v", res, err)})
	}
	var cq, cl, rq, rl int
	if err := db.QueryRowContext(ctx, "SELECT queued, leased FROM queue_counters WHERE id = 1;").Scan(&cq, &cl); err != nil {
		w.add([]Violation{viol("C01.counters", "C01", "queue_counters unreadable after restart: %v", err)})
		return
	}
	_ = db.QueryRowContext(ctx, "SELECT COUNT(*) FROM queue_items WHERE state='queued';").Scan(&rq)
	_ = db.QueryRowContext(ctx, "SELECT COUNT(*) FROM queue_items WHERE state='leased';").Scan(&rl)
	if cq != rq || cl != rl {
		w.add([]Violation{viol("C01.counters", "C01,C12", "after restart queue_counters say queued=%d leased=%d, rows say queued=%d leased=%d", cq, cl, rq, rl)})
	}
}

func (w *CrashWorld) execGuarded(s Step) (crashed bool) {
	defer func() {
		if rec := recover(); rec != nil {
			if _, ok := rec.(crashSentinel); ok {
				crashed = true
				return
			}
			panic(rec)
		}
	}()
	w.Exec(s)
	return false
}

// RunCrashProgram executes a W-crash program.
func RunCrashProgram(p *Program) *Result {
	if err := InstallSimDisk(); err != nil {
		return &Result{Trouble: "simdisk: " + err.Error()}
	}
	base, err := ScratchDir("cw-")
	if err != nil {
		return &Result{Trouble: err.Error()}
	}
	defer os.RemoveAll(base)
	cfg := p.Store
	cfg.Backend = "sqlite"
	sw := &StoreWorld{Cfg: cfg, Res: &Result{}, names: newNamer(), keepLingering: true}
	sw.Clock = NewClock(Epoch.Add(time.Duration(p.Offset)))
	sw.Clock.Install()
	sw.Model = NewModel(cfg)
	w := &CrashWorld{StoreWorld: sw, prog: p, fired: map[int]bool{}, base: base}
	w.stepIdx = -1
	err = w.open()
	if err == nil {
		w.Res.probeN("disk.ops.first_start", w.diskOps())
	}
	if err != nil {
		if w.Disk == nil || !(w.Disk.Dead() || w.faultInStep) {
			return &Result{Trouble: "open store: " + err.Error()}
		}
		// the process died (or met a disk error) while it started for the first
		// time - file creation, migration: the next start has to succeed on
		// whatever that left behind
		w.Res.probe("crash.during.first_start")
		w.Res.logf("first start failed after an injected fault: %s", errShort(err))
		action, seed := "crash.kill", int64(0)
		if w.pending != nil {
			action, seed = w.pending.Action, w.pending.ImgSeed
		}
		w.faultInStep = false
		w.restartLoop(action, seed, false)
		if w.Res.Trouble != "" || w.Store == nil {
			return w.Res
		}
	}
	defer func() {
		if w.closeFn != nil {
			w.Disk.Kill()
			_ = w.closeFn()
			w.Disk.Release()
		}
	}()
	r := w.Res
	start := w.Clock.Peek()
	r.logf("crash world max_depth=%d policy=%s retention=%s/%s delivered=%s", cfg.MaxDepth, cfg.DropPolicy, cfg.RetentionMaxAge, cfg.PruneInterval, cfg.DeliveredMaxAge)
	for i, s := range p.Steps {
		w.stepIdx = i
		w.stepStart = append(w.stepStart, w.diskOps())
		w.faultInStep = false
		w.pending = nil
		switch s.Op {
		case "crash":
			r.Ops++
			w.phase = "idle"
			w.restartLoop("crash."+s.Image, s.ImgSeed, false)
		case "visit":
			// another process opens the same database file, looks around and
			// leaves again (hookaido mcp does that for every tool call)
			r.Ops++
			w.phase = "visit"
			crashed := func() (c bool) {
				defer func() {
					if rec := recover(); rec != nil {
						if _, ok := rec.(crashSentinel); ok {
							c = true
							return
						}
						panic(rec)
					}
				}()
				st2, close2, err := openStore(w.Cfg, w.Clock, w.dbPath)
				if err == nil {
					_, _ = st2.Stats()
					_, lerr := st2.ListMessages(queue.MessageListRequest{Limit: 5})
					cerr := close2()
					r.logf("visit by a second process -> list %s, close %s", errShort(lerr), errShort(cerr))
					r.probe("crash.second_process_visit")
				} else {
					r.logf("visit by a second process -> open failed: %s", errShort(err))
				}
				if w.Disk.Dead() {
					panic(crashSentinel{})
				}
				return false
			}()
			if crashed && w.pending != nil {
				w.assume = nil
				w.restartLoop(w.pending.Action, w.pending.ImgSeed, false)
			} else if !crashed {
				// the visit prunes like any listing; the model learns it from the next observation
				w.observe("visit", false)
			}
		case "checkpoint":
			r.Ops++
			w.phase = "checkpoint"
			crashed := func() (c bool) {
				defer func() {
					if rec := recover(); rec != nil {
						if _, ok := rec.(crashSentinel); ok {
							c = true
							return
						}
						panic(rec)
					}
				}()
				if s, ok := w.inner.(*queue.SQLiteStore); ok {
					err := s.VerifCheckpoint()
					r.logf("checkpoint -> %s", errShort(err))
					if w.Disk.Dead() {
						panic(crashSentinel{})
					}
				}
				return false
			}()
			if crashed && w.pending != nil {
				r.probe("crash.inside.checkpoint")
				w.assume = nil
				w.restartLoop(w.pending.Action, w.pending.ImgSeed, false)
			}
		case "lockbusy":
			w.busyNext = true
			r.logf("another process takes the write lock for the duration of the next call")
		default:
			if w.busyNext && s.Op != "advance" {
				// the call runs against a held write lock: it fails as busy once the
				// retry budget is spent (an injected fault: in doubt, all or nothing)
				w.busyNext, w.busyOp = false, true
				w.Disk.SetBusy(true)
				w.faultInStep = true
				r.fault("lock.busy")
			}
			crashed := w.execGuarded(s)
			if w.busyOp {
				w.busyOp = false
				w.Disk.SetBusy(false)
			}
			if crashed {
				if w.pending == nil {
					r.Trouble = "crash without a pending fault"
					break
				}
				duringOp := w.phase == "op"
				w.restartLoop(w.pending.Action, w.pending.ImgSeed, duringOp)
			}
		}
		if r.Trouble != "" || w.Store == nil {
			break
		}
	}
	// bounded liveness after the last fault: everything unsettled is offered again
	if r.Trouble == "" && w.Store != nil {
		w.stepIdx = len(p.Steps)
		w.stepStart = append(w.stepStart, w.diskOps())
		w.faultsOff = true
		w.drain()
	}
	r.SimTime = int64(w.Clock.Peek().Sub(start))
	r.probeN("disk.ops", w.diskOps())
	ms := w.Model.Stats
	r.probeN("sweep.adopted", ms.SweepsAdopted)
	r.probeN("prune.adopted", ms.PrunesAdopted)
	return r
}

func (r *Result) probeN(name string, n int) {
	if n <= 0 {
		return
	}
	if r.Probes == nil {
		r.Probes = map[string]int{}
	}
	r.Probes[name] += n
}

// drain: with faults off, advance past every lease and delay and keep asking;
// every message the model holds as queued or leased must be offered (C01 "is
// offered for delivery again", C05 liveness).
func (w *CrashWorld) drain() {
	var horizon time.Duration = time.Second
	now := w.Clock.Peek()
	for _, x := range w.Model.Msgs {
		if x.State == queue.StateQueued || x.State == queue.StateLeased {
			if d := x.NextRunAt.Sub(now); d > horizon {
				horizon = d
			}
		}
	}
	// retention must not eat the survivors during the drain: only meaningful without queue retention
	if w.Cfg.RetentionMaxAge > 0 && w.Cfg.PruneInterval > 0 {
		return
	}
	w.Exec(Step{Op: "advance", D: horizon + 20*time.Millisecond})
	want := map[string]bool{}
	for _, x := range w.Model.Msgs {
		if x.State == queue.StateQueued || x.State == queue.StateLeased {
			want[x.ID] = true
		}
	}
	for i := 0; i < 20 && len(want) > 0; i++ {
		before := len(w.leases)
		w.Exec(Step{Op: "dequeue", Batch: 100, TTL: time.Hour})
		if len(w.leases) == before {
			break
		}
	}
	for _, x := range w.Model.Msgs {
		if want[x.ID] && x.State != queue.StateLeased {
			v := viol("C01.not_offered", "C01,C05", "after the last restart message %s (%s) was never offered again although faults stopped and the clock passed every lease and delay", x.ID, x.State)
			v.Loc = "sqlite/drain"
			w.add([]Violation{v})
		}
	}
}

// ---- generator ---------------------------------------------------------------

var crashWeights = map[string]int{
	"enqueue": 30, "enqueue_batch": 10, "dequeue": 18, "advance": 8,
	"ack": 8, "nack": 6, "dead": 4, "extend": 2, "ack_batch": 3, "nack_batch": 2, "dead_batch": 1,
	"checkpoint": 5, "crash": 4, "stats": 1, "visit": 3, "lockbusy": 3,
}

func GenCrashProgram(t *rapid.T) *Program {
	p := &Program{World: "crash"}
	p.Store = genQConfig(t, StoreProfile{Backends: []string{"sqlite"}, Limits: true, Retention: true})
	p.Offset = rapid.SampledFrom([]int64{0, 999_999_999}).Draw(t, "clock_offset")
	prof := StoreProfile{Weights: crashWeights, ExplicitTS: true}
	p.Steps = rapid.SliceOfN(rapid.Custom(func(t *rapid.T) Step {
		g := &storeGen{t: t, prof: prof}
		s := g.step()
		switch s.Op {
		case "checkpoint":
		case "crash":
			s.Image = rapid.SampledFrom([]string{"kill", "powerloss"}).Draw(t, "s.image")
			s.ImgSeed = int64(rapid.IntRange(0, 1<<20).Draw(t, "s.imgseed"))
		}
		return s
	}), 2, 30).Draw(t, "steps")
	// faults placed inside operations: "the k-th disk operation after step s began"
	nf := rapid.SampledFrom([]int{0, 1, 1, 1, 2, 2, 3}).Draw(t, "nfaults")
	for i := 0; i < nf; i++ {
		f := Fault{Site: "disk"}
		f.AfterStep = rapid.IntRange(0, len(p.Steps)-1).Draw(t, "f.step")
		f.Hit = rapid.IntRange(0, 24).Draw(t, "f.hit")
		f.Action = rapid.SampledFrom([]string{"crash.kill", "crash.kill", "crash.powerloss", "crash.powerloss", "eio", "full", "short"}).Draw(t, "f.action")
		f.ImgSeed = int64(rapid.IntRange(0, 1<<20).Draw(t, "f.imgseed"))
		p.Faults = append(p.Faults, f)
	}
	if rapid.IntRange(0, 5).Draw(t, "bulk?") == 0 {
		// a batch of several hundred messages (one publish call): hundreds of
		// disk operations, with a fault somewhere inside
		at := rapid.IntRange(0, len(p.Steps)).Draw(t, "bulk.at")
		st := Step{Op: "enqueue_batch", Bulk: rapid.SampledFrom([]int{129, 150, 257, 300}).Draw(t, "bulk.n"), Items: []EnvSpec{{ID: "new", Route: "/r0", Target: "pull"}}}
		p.Steps = append(p.Steps[:at], append([]Step{st}, p.Steps[at:]...)...)
		for i := range p.Faults {
			if p.Faults[i].AfterStep >= at {
				p.Faults[i].AfterStep++
			}
		}
		if rapid.IntRange(0, 3).Draw(t, "bulk.fault?") != 0 {
			p.Faults = append(p.Faults, Fault{Site: "disk", AfterStep: at, Hit: rapid.IntRange(0, 700).Draw(t, "bulk.hit"),
				Action:  rapid.SampledFrom([]string{"crash.kill", "crash.kill", "crash.powerloss", "eio", "full"}).Draw(t, "bulk.action"),
				ImgSeed: int64(rapid.IntRange(0, 1<<20).Draw(t, "bulk.imgseed"))})
		}
	}
	if rapid.IntRange(0, 7).Draw(t, "first_start?") == 0 {
		// the process dies (or meets a disk error) while it starts for the very
		// first time: file creation and schema migration
		p.Faults = append(p.Faults, Fault{Site: "disk", AfterStep: -1, Hit: rapid.IntRange(0, 80).Draw(t, "fs.hit"),
			Action:  rapid.SampledFrom([]string{"crash.kill", "crash.kill", "crash.powerloss", "eio"}).Draw(t, "fs.action"),
			ImgSeed: int64(rapid.IntRange(0, 1<<20).Draw(t, "fs.imgseed"))})
	}
	return p
}

func init() {
	Register(&CheckSpec{
		Prop: "C01", World: "crash",
		Gen: GenCrashProgram,
		Run: RunCrashProgram,
		NonTrivial: func(p *Program, r *Result) bool {
			return r.Ops >= 3 && (r.Faults["crash.kill"]+r.Faults["crash.powerloss"] > 0 || hasCrashStep(p))
		},
		Rule:  "store-level: seeded enqueue/batch/dequeue/lease/checkpoint histories on SQLiteStore over the simulated disk, with kill and power-loss crashes and EIO/ENOSPC/short-write faults placed at the k-th disk operation inside an operation or inside the very first start (file creation, schema migration); after each restart: store opens, integrity_check ok, counters = rows, listing equals the model (acknowledged operations certain, the one in flight in doubt: all or nothing), and with faults off everything unsettled is offered again; non-trivial = >=3 operations and >=1 crash; distinct = (op-kind sequence, fired fault kinds)",
		Level: "fault_enumeration",
		RealStub: map[string]string{
			"queue.SQLiteStore + modernc SQLite (pager, WAL, recovery)": "real",
			"disk durability": "simulated: shim VFS over the real unix VFS; fsync modelled (shadow + unsynced write list), create/delete/truncate durable at once",
			"clock":           "simulated",
			"process death":   "simulated: disk goes dead at the crash point, a fresh store is opened on the post-crash image (kill: all writes; power loss: seeded subset of unsynced writes, torn at 512 B)",
		},
		Quick: 2500, Thorough: 150000,
	})
}

func init() {
	// the same world judged for the clauses of C05 and C07 that speak about restarts
	base := Registry["C01/crash"]
	for _, x := range []struct {
		prop, rule      string
		quick, thorough int
	}{
		{"C05", "crash/restart part: the W-crash histories (SQLiteStore on the simulated disk, kill / power loss / disk faults at the k-th disk operation) judged for redelivery: after every restart each dequeue still returns min(batch, ready) with leases of the dead process expiring on the simulated clock, delays are not shortened, and after the last restart with faults off every unsettled message is offered again", 1500, 80000},
		{"C15", "crash part: batches of 1-4 and of 129-300 messages (one EnqueueBatch, as a publish call makes) on SQLiteStore over the simulated disk with a kill, power loss or disk error at the k-th disk operation inside the batch; after the restart, or after the refused call, the batch is there completely or not at all", 1500, 80000},
		{"C07", "restart part: payload bytes and header maps of every message listed after a crash recovery equal what was enqueued (W-crash histories with explicit headers; model rule C02.immutable.*)", 1000, 50000},
	} {
		c := *base
		c.Prop, c.Rule, c.Quick, c.Thorough = x.prop, x.rule, x.quick, x.thorough
		Register(&c)
	}
}

func hasCrashStep(p *Program) bool {
	for _, s := range p.Steps {
		if s.Op == "crash" {
			return true
		}
	}
	return false
}
