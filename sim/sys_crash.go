package sim

// W-sys crash world (C01, full path): a node on SQLite over the simulated disk;
// ingress POSTs (fan-out routes), Admin publish batches and Pull API calls; kill
// and power-loss crashes at the k-th disk operation inside a request, between
// the per-target enqueues of a fan-out, between commit and answer; restart of a
// fresh node on the post-crash image; recovery oracle:
//   acknowledged (202 / 200 / 204) => certain;  answer lost => in doubt
//   (ingress: any prefix of the route's targets; publish: all or nothing;
//   dequeue / ack: took effect or not).

import (
	"context"
	"encoding/base64"
	"encoding/json"
	"fmt"
	"os"
	"path/filepath"
	"strings"
	"time"

	"github.com/nuetzliches/hookaido/internal/queue"
	"pgregory.net/rapid"
)

type CrashSysWorld struct {
	*SysWorld
	Model        *Model
	prog         *Program
	stepStart    []int
	stepIdx      int
	fired        map[int]bool
	pending      *Fault
	opsBase      int
	restarts     int
	faultsOff    bool
	variants     []*Model
	leases       []string
	tok          int
	pubSeq       int
	inOp         bool
	restartAgain bool
}

func (w *CrashSysWorld) diskOps() int { return w.opsBase + w.Disk.Ops }

func (w *CrashSysWorld) decide(kind, path string, n int) DiskDecision {
	idx := w.diskOps() - 1
	if w.faultsOff {
		return DiskContinue
	}
	for i := range w.prog.Faults {
		f := &w.prog.Faults[i]
		if w.fired[i] || f.Site != "disk" || f.AfterStep > w.stepIdx || f.AfterStep >= len(w.stepStart) {
			continue
		}
		if idx != w.stepStart[f.AfterStep]+f.Hit {
			continue
		}
		w.fired[i] = true
		w.Res.fault(f.Action)
		w.Res.logf("  fault %s at disk op %d (%s %s %d bytes)", f.Action, idx, kind, filepath.Base(path), n)
		w.pending = f
		if w.inOp {
			w.Res.probe("crash.inside_request." + kind)
		}
		return DiskCrash
	}
	return DiskContinue
}

func (w *CrashSysWorld) add(rule, loc, format string, a ...any) {
	v := viol(rule, "C01", format, a...)
	v.Loc = loc
	w.Res.Violations = append(w.Res.Violations, v)
	w.Res.logf("  VIOLATION %s", v.String())
}

// observe compares the queue with the admissible pictures.
func (w *CrashSysWorld) observe(desc string) {
	items, err := w.Listing()
	if err != nil {
		if w.Disk.Dead() {
			return
		}
		w.add("C01.list", "syscrash", "listing failed after %s: %v", desc, err)
		return
	}
	now := w.Clock.Peek()
	cands := append([]*Model{w.Model.Clone()}, w.variants...)
	w.variants = nil
	var first []Violation
	for i, c := range cands {
		vs := c.CompareListing(now, desc, items)
		if i == 0 {
			first = vs
		}
		if len(vs) == 0 {
			w.Model = c
			if i > 0 {
				w.Res.probe("indoubt.applied")
			} else if len(cands) > 1 {
				w.Res.probe("indoubt.notapplied")
			}
			w.Res.States = append(w.Res.States, w.Model.Hash())
			return
		}
	}
	w.Model = cands[0]
	for _, v := range first {
		v.Loc = "syscrash/" + desc
		if len(cands) > 1 {
			v.Detail += " [request in doubt; no admissible picture explains the listing]"
		}
		v.Props = append(v.Props, "C01")
		w.Res.Violations = append(w.Res.Violations, v)
		w.Res.logf("  VIOLATION %s", v.String())
	}
}

func (w *CrashSysWorld) restart(action string, seed int64) {
	r := w.Res
	w.restarts++
	old := w.Disk
	oldNode := w.Node
	old.Kill()
	w.opsBase += old.Ops
	w.Sched.MarkDead(w.group)
	dir := filepath.Join(w.base, fmt.Sprintf("db%d", w.restarts))
	if err := os.MkdirAll(dir, 0o755); err != nil {
		r.Trouble = err.Error()
		return
	}
	power := action == "crash.powerloss"
	pend := old.PendingWrites()
	applied, dropped, torn, err := old.Image(dir, power, seed)
	if err != nil {
		r.Trouble = "image: " + err.Error()
		return
	}
	old.Release()
	go func() { _ = oldNode.CloseStore() }()
	if power {
		r.logf("restart #%d after power loss: %d unsynced writes (%d applied, %d dropped, %d torn)", w.restarts, pend, applied, dropped, torn)
		if pend > 0 {
			r.probe("powerloss.with_unsynced_writes")
		}
	} else {
		r.logf("restart #%d after kill", w.restarts)
	}
	w.Node = nil
	if err := w.startNode(dir, true); err != nil {
		if w.Disk != nil && w.Disk.Dead() {
			r.probe("fault.during.recovery")
			w.restartAgain = true
			return
		}
		w.add("C01.reopen", "syscrash/restart", "the node does not start on the database after a crash: %v", err)
		return
	}
	w.Disk.Decide = w.decide
	// integrity
	if s, ok := w.Node.RawStore.(*queue.SQLiteStore); ok {
		var res string
		db := s.VerifDB()
		if err := db.QueryRowContext(context.Background(), "PRAGMA integrity_check;").Scan(&res); err != nil || res != "ok" {
			w.add("C01.integrity", "syscrash/restart", "PRAGMA integrity_check after restart: %q err=%v", res, err)
		}
		var cq, cl, rq, rl int
		_ = db.QueryRowContext(context.Background(), "SELECT queued, leased FROM queue_counters WHERE id = 1;").Scan(&cq, &cl)
		_ = db.QueryRowContext(context.Background(), "SELECT COUNT(*) FROM queue_items WHERE state='queued';").Scan(&rq)
		_ = db.QueryRowContext(context.Background(), "SELECT COUNT(*) FROM queue_items WHERE state='leased';").Scan(&rl)
		if cq != rq || cl != rl {
			w.add("C01.counters", "syscrash/restart", "after restart queue_counters say queued=%d leased=%d, rows say queued=%d leased=%d", cq, cl, rq, rl)
		}
	}
	w.observe(fmt.Sprintf("restart#%d", w.restarts))
}

// crashed reports whether the node died during the last request and, if so,
// restarts it (possibly repeatedly when a fault hits the recovery).
func (w *CrashSysWorld) handleCrash() bool {
	if w.Disk == nil || !w.Disk.Dead() {
		return false
	}
	for i := 0; i < 6; i++ {
		w.restartAgain = false
		action, seed := "crash.kill", int64(0)
		if w.pending != nil {
			action, seed = w.pending.Action, w.pending.ImgSeed
		}
		w.pending = nil
		w.restart(action, seed)
		if !w.restartAgain || w.Res.Trouble != "" {
			return true
		}
	}
	w.Res.Trouble = "more than 6 consecutive crashes during recovery"
	return true
}

func (w *CrashSysWorld) ingress(routeIdx int, big bool) {
	r := &w.Spec.Routes[routeIdx%len(w.Spec.Routes)]
	w.tok++
	body := []byte(fmt.Sprintf("tok-%04d", w.tok))
	if big {
		body = append(body, make([]byte, 9000)...) // spans several WAL pages
	}
	req, err := NewRequest("POST", r.Path, "hooks.example.com", "", []KV{{"X-Tok", fmt.Sprintf("%d", w.tok)}}, body)
	if err != nil {
		return
	}
	now := w.Clock.Peek()
	hdr := refStoredHeaders(req.Header, nil)
	w.inOp = true
	resp := w.Do("ingress", w.Ingress, req)
	w.inOp = false
	w.Res.Ops++
	targets := r.targets()
	mk := func(t string) queue.Envelope {
		return queue.Envelope{Route: r.Path, Target: t, Payload: body, Headers: hdr, Trace: map[string]string{"remote_addr": req.RemoteAddr, "path": r.Path}}
	}
	switch {
	case resp.Lost:
		w.Res.logf("ingress %s tok=%d -> answer lost (node died)", r.Path, w.tok)
		w.Res.probe("ingress.answer_lost")
		// in doubt: any prefix of the targets may have been stored
		for k := 1; k <= len(targets); k++ {
			m := w.Model.Clone()
			for _, t := range targets[:k] {
				m.Enqueue(now, []queue.Envelope{mk(t)}, false, 0, nil)
			}
			w.variants = append(w.variants, m)
		}
	case resp.Status == 202:
		w.Res.logf("ingress %s tok=%d -> 202", r.Path, w.tok)
		w.Res.probe("ingress.202")
		for _, t := range targets {
			for _, v := range w.Model.Enqueue(now, []queue.Envelope{mk(t)}, false, 0, nil) {
				v.Loc = "syscrash/ingress"
				v.Props = append(v.Props, "C01")
				w.Res.Violations = append(w.Res.Violations, v)
			}
		}
		w.observe("ingress 202")
	default:
		w.Res.logf("ingress %s tok=%d -> %d", r.Path, w.tok, resp.Status)
		// refused (queue full ...): a prefix may have been kept (documented)
		for k := 1; k < len(targets); k++ {
			m := w.Model.Clone()
			for _, t := range targets[:k] {
				m.Enqueue(now, []queue.Envelope{mk(t)}, false, 0, nil)
			}
			w.variants = append(w.variants, m)
		}
		w.observe(fmt.Sprintf("ingress %d", resp.Status))
	}
}

func (w *CrashSysWorld) publish(n int) {
	now := w.Clock.Peek()
	var items []map[string]any
	var envs []queue.Envelope
	for i := 0; i < n; i++ {
		w.pubSeq++
		r := &w.Spec.Routes[(w.pubSeq+i)%len(w.Spec.Routes)]
		tg := r.targets()
		id := fmt.Sprintf("pub-%04d", w.pubSeq)
		payload := []byte("payload-" + id)
		items = append(items, map[string]any{"id": id, "route": r.Path, "target": tg[0], "payload_b64": base64.StdEncoding.EncodeToString(payload)})
		envs = append(envs, queue.Envelope{ID: id, Route: r.Path, Target: tg[0], Payload: payload, State: queue.StateQueued})
	}
	b, _ := json.Marshal(map[string]any{"items": items})
	req, err := NewRequest("POST", "/messages/publish", "admin.internal", "127.0.0.1:9", []KV{{"X-Hookaido-Audit-Reason", "verif"}, {"Content-Type", "application/json"}}, b)
	if err != nil {
		return
	}
	w.inOp = true
	resp := w.Do("admin", w.Admin, req)
	w.inOp = false
	w.Res.Ops++
	switch {
	case resp.Lost:
		w.Res.logf("publish n=%d -> answer lost (node died)", n)
		w.Res.probe("publish.answer_lost")
		m := w.Model.Clone()
		m.Enqueue(now, envs, true, len(envs), nil)
		w.variants = append(w.variants, m) // all or nothing
	case resp.Status == 200:
		w.Res.logf("publish n=%d -> 200", n)
		w.Res.probe("publish.200")
		for _, v := range w.Model.Enqueue(now, envs, true, len(envs), nil) {
			v.Loc = "syscrash/publish"
			v.Props = append(v.Props, "C01")
			w.Res.Violations = append(w.Res.Violations, v)
		}
		w.observe("publish 200")
	default:
		w.Res.logf("publish n=%d -> %d %s", n, resp.Status, truncS(resp.Body, 80))
		w.observe(fmt.Sprintf("publish %d", resp.Status))
	}
}

func (w *CrashSysWorld) pull(kind string, routeIdx, batch, ref int) {
	var pr []*RouteSpec
	for i := range w.Spec.Routes {
		if w.Spec.Routes[i].PullPath != "" {
			pr = append(pr, &w.Spec.Routes[i])
		}
	}
	if len(pr) == 0 {
		return
	}
	r := pr[routeIdx%len(pr)]
	now := w.Clock.Peek()
	hdrs := []KV{{"Authorization", "Bearer " + w.Spec.PullTokens[0]}, {"Content-Type", "application/json"}}
	w.Res.Ops++
	switch kind {
	case "dequeue":
		b, _ := json.Marshal(map[string]any{"batch": batch, "lease_ttl": "1m0s"})
		req, _ := NewRequest("POST", r.PullPath+"/dequeue", "pull.internal", "10.9.9.9:5", hdrs, b)
		qreq := queue.DequeueRequest{Route: r.Path, Target: "pull", Batch: batch, LeaseTTL: time.Minute}
		w.inOp = true
		resp := w.Do("pull", w.Pull, req)
		w.inOp = false
		if resp.Lost {
			w.Res.logf("pull dequeue %s -> answer lost", r.PullPath)
			w.Res.probe("dequeue.answer_lost")
			m := w.Model.Clone()
			m.DoubtDequeue(now, qreq)
			w.variants = append(w.variants, m)
			return
		}
		var dr struct {
			Items []pullItem `json:"items"`
		}
		_ = json.Unmarshal(resp.Body, &dr)
		var qresp queue.DequeueResponse
		for _, it := range dr.Items {
			payload, _ := base64.StdEncoding.DecodeString(it.PayloadB64)
			qresp.Items = append(qresp.Items, queue.Envelope{ID: it.ID, LeaseID: it.LeaseID, ReceivedAt: it.ReceivedAt, Attempt: it.Attempt, NextRunAt: it.NextRunAt, LeaseUntil: it.NextRunAt, Route: it.Route, Target: "pull", State: queue.StateLeased, Payload: payload, Headers: it.Headers, Trace: it.Trace})
			w.leases = append(w.leases, it.LeaseID)
		}
		w.Res.logf("pull dequeue %s batch=%d -> %d items (%d)", r.PullPath, batch, len(dr.Items), resp.Status)
		if resp.Status == 200 {
			for _, v := range w.Model.Dequeue(now, qreq, qresp, nil) {
				v.Loc = "syscrash/dequeue"
				v.Props = append(v.Props, "C01")
				w.Res.Violations = append(w.Res.Violations, v)
				w.Res.logf("  VIOLATION %s", v.String())
			}
		}
		w.observe("pull dequeue")
	case "ack", "nack":
		if len(w.leases) == 0 {
			return
		}
		id := w.leases[len(w.leases)-1-ref%len(w.leases)]
		body := map[string]any{"lease_id": id}
		op := opAck
		if kind == "nack" {
			body["delay"] = "5s"
			op = opNack
		}
		b, _ := json.Marshal(body)
		req, _ := NewRequest("POST", r.PullPath+"/"+kind, "pull.internal", "10.9.9.9:5", hdrs, b)
		w.inOp = true
		resp := w.Do("pull", w.Pull, req)
		w.inOp = false
		if resp.Lost {
			w.Res.logf("pull %s -> answer lost", kind)
			w.Res.probe(kind + ".answer_lost")
			m := w.Model.Clone()
			m.applyLease(now, op, id, 5*time.Second, "")
			w.variants = append(w.variants, m)
			return
		}
		w.Res.logf("pull %s -> %d", kind, resp.Status)
		switch resp.Status {
		case 204:
			// acknowledged: not undone by any later crash
			if cls := w.Model.applyLease(now, op, id, 5*time.Second, ""); cls != "ok" {
				// an idempotent answer to a duplicate: no effect
				w.Res.probe("pull.idempotent_or_stale")
			} else {
				w.Res.probe(kind + ".204")
			}
		case 409:
			w.Model.applyLease(now, op, id, 5*time.Second, "")
		}
		w.observe("pull " + kind)
	}
}

// pullRace: the same single-lease request (ack or nack of one lease) is sent two
// or three times at once - a consumer that retries while its first attempt is
// still in flight. Every statement of the Pull API handlers and both sides of
// the store calls are scheduling points. The process may die at a drawn
// scheduling decision, at the instant one of the requests has been answered
// while another is still in flight, or at a disk operation (fault plan).
// Oracle: an answer 204 that was written before the process died is an
// acknowledgement: after restart the lease operation has taken effect. If no
// request was answered, the operation is in doubt.
func (w *CrashSysWorld) pullRace(s Step) {
	var pr []*RouteSpec
	for i := range w.Spec.Routes {
		if w.Spec.Routes[i].PullPath != "" {
			pr = append(pr, &w.Spec.Routes[i])
		}
	}
	if len(pr) == 0 || len(w.leases) == 0 {
		return
	}
	kind := s.Reason
	r := pr[0]
	ref := s.Batch
	if ref < 0 {
		ref = -ref
	}
	id := w.leases[len(w.leases)-1-ref%len(w.leases)]
	// the endpoint of the route the lease belongs to
	if x := w.Model.findLease(id); x != nil {
		for _, c := range pr {
			if c.Path == x.Route {
				r = c
			}
		}
	}
	now := w.Clock.Peek()
	hdrs := []KV{{"Authorization", "Bearer " + w.Spec.PullTokens[0]}, {"Content-Type", "application/json"}}
	body := map[string]any{"lease_id": id}
	op := opAck
	if kind == "nack" {
		body["delay"] = "5s"
		op = opNack
	}
	b, _ := json.Marshal(body)
	n := 2
	if s.Pad {
		n = 3
	}
	w.Res.Ops++
	var tasks []*Task
	for i := 0; i < n; i++ {
		req, _ := NewRequest("POST", r.PullPath+"/"+kind, "pull.internal", "10.9.9.9:5", hdrs, b)
		tasks = append(tasks, w.Start("pullrace", w.Pull, req))
	}
	methods := []string{"Ack", "Nack", "MarkDead", "AckBatch", "NackBatch"}
	for _, m := range methods {
		w.armedStore[m], w.armedStore[m+".after"] = true, true
	}
	w.Sched.SetArmed(func(l string) bool { return strings.HasPrefix(l, "pullapi.Server.") || strings.HasPrefix(l, "store.") })
	w.Sched.DetectBlocked = true
	step0 := w.Sched.Steps
	crashedAt := ""
	w.Sched.OnDecision = func(step int) {
		if w.Disk.Dead() {
			w.Sched.MarkDead(w.group)
			w.Sched.Halt = true
			return
		}
		die := false
		if s.CrashStep != nil && step-step0 == *s.CrashStep {
			die, crashedAt = true, fmt.Sprintf("before scheduling decision %d", step-step0)
			w.Res.probe("pullrace.crash.between_statements")
		}
		if s.CrashAfterTask != nil && *s.CrashAfterTask < len(tasks) && tasks[*s.CrashAfterTask].Done() {
			live := false
			for i, t := range tasks {
				if i != *s.CrashAfterTask && !t.Done() && t.ParkedAt() != "start" {
					live = true
				}
			}
			if live {
				die, crashedAt = true, fmt.Sprintf("when request %d had been answered and another was in flight", *s.CrashAfterTask)
				w.Res.probe("pullrace.crash.after_one_answered")
			}
		}
		if die {
			w.Disk.Kill()
			w.pending = &Fault{Action: "crash." + s.Image, ImgSeed: s.ImgSeed}
			w.Res.fault("crash." + s.Image)
			w.Sched.MarkDead(w.group)
			w.Sched.Halt = true
		}
	}
	w.inOp = true
	k := w.Sched.InterleaveBlocking(tasks, s.Sched)
	w.inOp = false
	w.Sched.OnDecision, w.Sched.Halt = nil, false
	w.Sched.SetArmed(nil)
	w.Sched.DetectBlocked = false
	for _, m := range methods {
		delete(w.armedStore, m)
		delete(w.armedStore, m+".after")
	}
	dead := w.Disk.Dead()
	switch {
	case k == "done", k == "halted", k == "deadlock" && dead, k == "crashed":
	case k == "deadlock":
		w.add("pullrace.deadlock", "syscrash/pullrace", "concurrent %s requests for one lease are stuck waiting for one another", kind)
		return
	default:
		w.Res.Trouble = "pullrace: " + k + " " + w.Sched.Trouble
		return
	}
	var sts []string
	n204, nLost := 0, 0
	for _, t := range tasks {
		fk := "dead"
		if t.Done() {
			fk = "done"
		}
		resp := w.finish(t, fk)
		switch {
		case resp.Lost:
			nLost++
			sts = append(sts, "lost")
		default:
			sts = append(sts, fmt.Sprint(resp.Status))
			if resp.Status == 204 {
				n204++
			}
		}
	}
	if w.Sched.Switches > 1 {
		w.Res.probe("pullrace.interleaved")
	}
	w.Res.logf("pull race: %d x %s of one lease -> %s%s", n, kind, strings.Join(sts, " "), map[bool]string{true: " (process died " + crashedAt + ")", false: ""}[dead])
	switch {
	case n204 > 0:
		// acknowledged to the consumer: the operation has taken effect and no
		// crash undoes it (a second 204 is the idempotent answer to the duplicate)
		if cls := w.Model.applyLease(now, op, id, 5*time.Second, ""); cls != "ok" {
			// the idempotent answer to a duplicate of an operation that succeeded
			// earlier (judged for C04 by the pull world): no effect
			w.Res.probe("pullrace.idempotent_or_stale")
		} else {
			w.Res.probe("pullrace.acknowledged")
			if dead {
				w.Res.probe("pullrace.acknowledged_then_died")
			}
		}
	case nLost > 0:
		m := w.Model.Clone()
		m.applyLease(now, op, id, 5*time.Second, "")
		w.variants = append(w.variants, m)
		w.Res.probe("pullrace.in_doubt")
	default:
		w.Model.applyLease(now, op, id, 5*time.Second, "") // all refused: a stale or expired lease is released
	}
	if !dead {
		w.observe("pull race " + kind)
	}
}

func RunCrashSysProgram(p *Program) *Result {
	var sys ingressSys
	if err := json.Unmarshal(p.Sys, &sys); err != nil || sys.Spec == nil {
		return &Result{Trouble: "bad sys spec"}
	}
	spec := *sys.Spec
	sw, err := NewSysWorld(&spec, p.Offset, SysOptions{Seed: 1, SimDisk: true})
	if err != nil {
		return &Result{Trouble: "node: " + err.Error() + "\n" + spec.Render()}
	}
	w := &CrashSysWorld{SysWorld: sw, prog: p, fired: map[int]bool{}}
	w.Model = NewModel(sysQConfig(&spec))
	w.Disk.Decide = w.decide
	defer w.Close()
	start := w.Clock.Peek()
	w.Res.logf("syscrash world routes=%d max_depth=%d/%s", len(spec.Routes), spec.MaxDepth, spec.DropPolicy)
	for i, s := range p.Steps {
		w.stepIdx = i
		w.stepStart = append(w.stepStart, w.diskOps())
		switch s.Op {
		case "ingress":
			w.ingress(s.Batch, s.Pad)
		case "publish":
			w.publish(s.Batch)
		case "pull":
			w.pull(s.Reason, s.Batch, s.Batch, s.Batch)
		case "pullrace":
			w.pullRace(s)
		case "advance":
			w.Clock.Advance(s.D)
			w.Res.Ops++
			w.Res.logf("advance %s", s.D)
		case "checkpoint":
			w.Res.Ops++
			if st, ok := w.Node.RawStore.(*queue.SQLiteStore); ok {
				w.inOp = true
				err := st.VerifCheckpoint()
				w.inOp = false
				w.Res.logf("checkpoint -> %s", errShort(err))
			}
		case "crash":
			w.Res.Ops++
			w.Disk.Kill()
			w.pending = &Fault{Action: "crash." + s.Image, ImgSeed: s.ImgSeed}
			w.Res.fault("crash." + s.Image)
		default:
			w.Res.Trouble = "syscrash world: unknown op " + s.Op
		}
		if w.Res.Trouble != "" {
			return w.Res
		}
		w.handleCrash()
		if w.Res.Trouble != "" || w.Node == nil {
			return w.Res
		}
	}
	// liveness after the last fault: everything unsettled on pull routes is offered again
	w.faultsOff = true
	w.stepIdx = len(p.Steps)
	w.stepStart = append(w.stepStart, w.diskOps())
	w.Clock.Advance(2 * time.Minute)
	npull := 0
	for i := range w.Spec.Routes {
		if w.Spec.Routes[i].PullPath != "" {
			npull++
		}
	}
	for i := 0; i < npull; i++ {
		for k := 0; k < 5; k++ {
			before := len(w.leases)
			w.pull("dequeue", i, 100, 0)
			if len(w.leases) == before {
				break
			}
		}
	}
	for _, x := range w.Model.Msgs {
		if x.Target == "pull" && (x.State == queue.StateQueued) {
			w.add("C01.not_offered", "syscrash/drain", "message %s of route %s is queued and due but was not offered after the last restart", x.ID, x.Route)
			break
		}
	}
	w.Res.SimTime = int64(w.Clock.Peek().Sub(start))
	w.Res.probeN("disk.ops", w.diskOps())
	return w.Res
}

func GenCrashSysProgram(t *rapid.T) *Program {
	p := &Program{World: "syscrash"}
	spec := &SysSpec{Backend: "sqlite", PullTokens: []string{"pull-token-1"}}
	n := rapid.IntRange(1, 3).Draw(t, "routes")
	for i := 0; i < n; i++ {
		r := RouteSpec{Path: fmt.Sprintf("/c%d", i)}
		if rapid.IntRange(0, 2).Draw(t, "mode") == 0 {
			k := rapid.IntRange(2, 3).Draw(t, "targets")
			for j := 0; j < k; j++ {
				r.Deliver = append(r.Deliver, DeliverSpec{URL: fmt.Sprintf("https://t%d.example/c%d", j, i)})
			}
			r.Concurrency = 1
		} else {
			r.PullPath = fmt.Sprintf("/pull/c%d", i)
		}
		spec.Routes = append(spec.Routes, r)
	}
	if rapid.IntRange(0, 3).Draw(t, "depth?") == 0 {
		spec.MaxDepth = rapid.IntRange(2, 6).Draw(t, "max_depth")
		spec.DropPolicy = rapid.SampledFrom([]string{"reject", "drop_oldest"}).Draw(t, "drop")
	}
	p.Sys, _ = json.Marshal(ingressSys{Spec: spec})
	ns := rapid.IntRange(2, 18).Draw(t, "nsteps")
	for i := 0; i < ns; i++ {
		switch k := rapid.IntRange(0, 19).Draw(t, "kind"); {
		case k < 7:
			p.Steps = append(p.Steps, Step{Op: "ingress", Batch: rapid.IntRange(0, 2).Draw(t, "route"), Pad: rapid.IntRange(0, 5).Draw(t, "big") == 0})
		case k < 10:
			p.Steps = append(p.Steps, Step{Op: "publish", Batch: rapid.IntRange(1, 5).Draw(t, "n")})
		case k < 13:
			p.Steps = append(p.Steps, Step{Op: "pull", Reason: "dequeue", Batch: rapid.IntRange(1, 3).Draw(t, "batch")})
		case k < 15:
			p.Steps = append(p.Steps, Step{Op: "pull", Reason: rapid.SampledFrom([]string{"ack", "ack", "nack"}).Draw(t, "lk"), Batch: rapid.IntRange(0, 3).Draw(t, "ref")})
		case k < 16:
			p.Steps = append(p.Steps, Step{Op: "checkpoint"})
		case k < 18:
			p.Steps = append(p.Steps, Step{Op: "advance", D: rapid.SampledFrom([]time.Duration{time.Second, 30 * time.Second, 61 * time.Second}).Draw(t, "d")})
		default:
			p.Steps = append(p.Steps, Step{Op: "crash", Image: rapid.SampledFrom([]string{"kill", "powerloss"}).Draw(t, "image"), ImgSeed: int64(rapid.IntRange(0, 1<<20).Draw(t, "imgseed"))})
		}
	}
	if rapid.IntRange(0, 2).Draw(t, "pullrace?") == 0 {
		// a consumer retries an ack / nack while its first attempt is in flight
		var pulls []int
		for i, r := range spec.Routes {
			if r.PullPath != "" {
				pulls = append(pulls, i)
			}
		}
		if len(pulls) > 0 {
			ri := pulls[rapid.IntRange(0, len(pulls)-1).Draw(t, "pr.route")]
			st := Step{Op: "pullrace", Reason: rapid.SampledFrom([]string{"ack", "ack", "nack"}).Draw(t, "pr.kind"), Batch: 0, Pad: rapid.IntRange(0, 3).Draw(t, "pr.three") == 0,
				Image: rapid.SampledFrom([]string{"kill", "kill", "powerloss"}).Draw(t, "pr.image"), ImgSeed: int64(rapid.IntRange(0, 1<<20).Draw(t, "pr.imgseed"))}
			type seg struct{ who, n int }
			segs := rapid.SliceOfN(rapid.Custom(func(t *rapid.T) seg {
				return seg{rapid.IntRange(0, 2).Draw(t, "who"), rapid.SampledFrom([]int{1, 2, 3, 5, 8, 13, 21, 34}).Draw(t, "len")}
			}), 0, 8).Draw(t, "pr.sched")
			for _, sg := range segs {
				for i := 0; i < sg.n && len(st.Sched) < 200; i++ {
					st.Sched = append(st.Sched, sg.who)
				}
			}
			switch rapid.IntRange(0, 4).Draw(t, "pr.crash") {
			case 0:
			case 1:
				st.CrashStep = intp(rapid.IntRange(1, 60).Draw(t, "pr.crash_step"))
			default:
				st.CrashAfterTask = intp(rapid.IntRange(0, 1).Draw(t, "pr.crash_after"))
			}
			// the pull route index among pull routes for the dequeue step
			pi := 0
			for k, v := range pulls {
				if v == ri {
					pi = k
				}
			}
			p.Steps = append(p.Steps, Step{Op: "ingress", Batch: ri}, Step{Op: "pull", Reason: "dequeue", Batch: len(pulls) + pi}, st)
		}
	}
	nf := rapid.SampledFrom([]int{0, 1, 1, 2, 2, 3}).Draw(t, "nfaults")
	for i := 0; i < nf; i++ {
		p.Faults = append(p.Faults, Fault{Site: "disk", AfterStep: rapid.IntRange(0, len(p.Steps)-1).Draw(t, "f.step"), Hit: rapid.IntRange(0, 60).Draw(t, "f.hit"),
			Action: rapid.SampledFrom([]string{"crash.kill", "crash.kill", "crash.powerloss"}).Draw(t, "f.action"), ImgSeed: int64(rapid.IntRange(0, 1<<20).Draw(t, "f.imgseed"))})
	}
	return p
}

func init() {
	Register(&CheckSpec{
		Prop: "C01", World: "syscrash",
		Gen: GenCrashSysProgram, Run: RunCrashSysProgram,
		NonTrivial: func(p *Program, r *Result) bool {
			return r.Ops >= 3 && r.Faults["crash.kill"]+r.Faults["crash.powerloss"] > 0
		},
		Rule:  "system-level: a node (real startServers wiring) on SQLite over the simulated disk; ingress POSTs incl. fan-out routes and multi-page bodies, Admin publish batches, Pull API dequeue/ack/nack, checkpoints; kill / power-loss crashes at the k-th disk operation inside a request (between per-target enqueues, between commit and answer) and between requests; restart of a fresh node on the image; oracle: node starts, integrity_check ok, counters = rows, 202/200/204-acknowledged effects certain, the request whose answer was lost in doubt (ingress: a prefix of the targets; publish: all or nothing; dequeue/ack: took effect or not), and everything unsettled on pull routes is offered again; non-trivial = >=3 requests and >=1 crash",
		Level: "fault_enumeration",
		RealStub: map[string]string{
			"ingress.Server, admin.Server publish, pullapi.Server, app wiring, queue.SQLiteStore + modernc SQLite": "real",
			"disk durability / process death": "simulated (shim VFS; kill and power-loss images)",
			"dispatcher":                      "workers adopted but never scheduled in this world (messages of deliver routes stay queued)",
		},
		Quick: 700, Thorough: 40000,
	})
}
