package sim

// MCP world (C20): the real mcp.Server over in-memory pipes, in SQLite mode, on
// a config file and a database prepared by the harness.
//  gate:   the complete table tool (31 known + unknown) x role x flags x
//          principal is enumerated against the reference gate written from
//          internal/mcp/spec.md; tools/list must advertise exactly the allowed
//          set; denied calls change neither queue nor config file; every
//          mutating call leaves exactly one complete audit record.
//  apply:  config-writing tools touch only the configured path and only with
//          content that compiles; foreign paths, unknown keys and mismatching
//          actors are refused without effect.

import (
	"bytes"
	"context"
	"encoding/json"
	"fmt"
	"os"
	"path/filepath"
	"sort"
	"strings"
	"time"

	"github.com/nuetzliches/hookaido/internal/config"
	"github.com/nuetzliches/hookaido/internal/mcp"
	"github.com/nuetzliches/hookaido/internal/queue"
)

type toolRef struct {
	role     int // 1 read 2 operate 3 admin
	mut      bool
	rc       bool
	mutating bool
}

// mcpTools: the gate table, from internal/mcp/spec.md (tool headings with their
// "(requires --enable-...)" notes, the role paragraph and the guardrails list).
var mcpTools = map[string]toolRef{
	"config_parse": {1, false, false, false}, "config_validate": {1, false, false, false}, "config_compile": {1, false, false, false},
	"config_fmt_preview": {1, false, false, false}, "config_diff": {1, false, false, false}, "admin_health": {1, false, false, false},
	"management_model": {1, false, false, false}, "backlog_top_queued": {1, false, false, false}, "backlog_oldest_queued": {1, false, false, false},
	"backlog_aging_summary": {1, false, false, false}, "backlog_trends": {1, false, false, false}, "messages_list": {1, false, false, false},
	"attempts_list": {1, false, false, false}, "dlq_list": {1, false, false, false},
	"dlq_requeue": {2, true, false, true}, "dlq_delete": {2, true, false, true}, "messages_cancel": {2, true, false, true},
	"messages_requeue": {2, true, false, true}, "messages_resume": {2, true, false, true}, "messages_publish": {2, true, false, true},
	"messages_cancel_by_filter": {2, true, false, true}, "messages_requeue_by_filter": {2, true, false, true}, "messages_resume_by_filter": {2, true, false, true},
	"instance_status": {2, false, true, false}, "instance_logs_tail": {2, false, true, false},
	"config_apply": {3, true, false, true}, "management_endpoint_upsert": {3, true, false, true}, "management_endpoint_delete": {3, true, false, true},
	"instance_start": {3, false, true, true}, "instance_stop": {3, false, true, true}, "instance_reload": {3, false, true, true},
}

var mcpUnknownTools = []string{"messages_purge", "CONFIG_APPLY", "instance_restart", "Dlq_Delete"}

// names that differ from a tool's name by surrounding white space only
var mcpPaddedTools = []string{"config_apply ", " config_apply", "dlq_delete\t", "messages_cancel\n", " messages_publish ", "instance_reload ", " queue_stats", "management_endpoint_delete "}

func roleRankRef(r string) int {
	switch r {
	case "admin":
		return 3
	case "operate":
		return 2
	}
	return 1
}

type mcpCfg struct {
	Role      string
	Mut, RC   bool
	Principal string
}

func (c mcpCfg) allowed(tool string) bool {
	t, ok := mcpTools[tool]
	if !ok {
		return false
	}
	if t.mut && !c.Mut {
		return false
	}
	if t.rc && !c.RC {
		return false
	}
	if roleRankRef(c.Role) < t.role {
		return false
	}
	if t.mutating && strings.TrimSpace(c.Principal) == "" {
		return false
	}
	return true
}

type mcpEnv struct {
	dir, cfgPath, dbPath string
	cfgText              []byte
	obs                  *queue.SQLiteStore
}

const mcpConfigText = `ingress {
  listen 127.0.0.1:0
}
pull_api {
  listen 127.0.0.2:0
  auth token "raw:pull-token-1"
}
admin_api {
  listen 127.0.0.3:0
}
"/a" {
  pull {
    path "/pull/a"
  }
}
`

func newMCPEnv() (*mcpEnv, error) {
	dir, err := ScratchDir("mcp-")
	if err != nil {
		return nil, err
	}
	e := &mcpEnv{dir: dir, cfgPath: filepath.Join(dir, "Hookaidofile"), dbPath: filepath.Join(dir, "q.db"), cfgText: []byte(mcpConfigText)}
	if err := os.WriteFile(e.cfgPath, e.cfgText, 0o600); err != nil {
		return nil, err
	}
	st, err := queue.NewSQLiteStore(e.dbPath, queue.WithSQLiteCheckpointInterval(0))
	if err != nil {
		return nil, err
	}
	for i, state := range []queue.State{queue.StateQueued, queue.StateQueued, queue.StateDead, queue.StateCanceled} {
		_ = st.Enqueue(queue.Envelope{ID: fmt.Sprintf("seed-%d", i), Route: "/a", Target: "pull", Payload: []byte("x"), State: state, DeadReason: "no_retry"})
	}
	e.obs = st
	return e, nil
}

func (e *mcpEnv) close() {
	if e.obs != nil {
		_ = e.obs.Close()
	}
	_ = os.RemoveAll(e.dir)
}

func (e *mcpEnv) snapshot() string {
	b, _ := os.ReadFile(e.cfgPath)
	resp, _ := e.obs.ListMessages(queue.MessageListRequest{Order: "asc", Limit: 1000, IncludePayload: true})
	var parts []string
	for _, it := range resp.Items {
		parts = append(parts, fmt.Sprintf("%s/%s/%s/%d/%x", it.ID, it.Route, it.State, it.Attempt, it.Payload))
	}
	ents, _ := os.ReadDir(e.dir)
	var names []string
	for _, en := range ents {
		if !strings.HasPrefix(en.Name(), "q.db") {
			names = append(names, en.Name())
		}
	}
	return string(b) + "\x00" + strings.Join(parts, ";") + "\x00" + strings.Join(names, ",")
}

func frame(v any) []byte {
	b, _ := json.Marshal(v)
	return append([]byte(fmt.Sprintf("Content-Length: %d\r\n\r\n", len(b))), b...)
}

func parseFrames(b []byte) []map[string]any {
	var out []map[string]any
	for len(b) > 0 {
		i := bytes.Index(b, []byte("\r\n\r\n"))
		if i < 0 {
			break
		}
		var n int
		fmt.Sscanf(strings.TrimSpace(strings.SplitN(string(b[:i]), ":", 2)[1]), "%d", &n)
		b = b[i+4:]
		if n > len(b) {
			break
		}
		var m map[string]any
		_ = json.Unmarshal(b[:n], &m)
		out = append(out, m)
		b = b[n:]
	}
	return out
}

// mcpCall runs one JSON-RPC request through a fresh Serve loop of a server with
// the given options; returns the response and the audit lines it produced.
func (e *mcpEnv) call(c mcpCfg, method string, params any) (map[string]any, []map[string]any) {
	var in bytes.Buffer
	in.Write(frame(map[string]any{"jsonrpc": "2.0", "id": 1, "method": method, "params": params}))
	var out, audit bytes.Buffer
	role, _ := mcp.ParseRole(c.Role)
	srv := mcp.NewServer(&in, &out, e.cfgPath, e.dbPath,
		mcp.WithRole(role), mcp.WithMutationsEnabled(c.Mut), mcp.WithRuntimeControlEnabled(c.RC), mcp.WithPrincipal(c.Principal), mcp.WithAuditWriter(&audit))
	_ = srv.Serve(context.Background())
	frames := parseFrames(out.Bytes())
	var resp map[string]any
	if len(frames) > 0 {
		resp = frames[0]
	}
	var lines []map[string]any
	for _, l := range strings.Split(strings.TrimSpace(audit.String()), "\n") {
		if strings.TrimSpace(l) == "" {
			continue
		}
		var m map[string]any
		if json.Unmarshal([]byte(l), &m) == nil {
			lines = append(lines, m)
		} else {
			lines = append(lines, map[string]any{"unparsable": l})
		}
	}
	return resp, lines
}

func benignArgs(tool string, e *mcpEnv, actor string) map[string]any {
	a := map[string]any{}
	switch tool {
	case "dlq_requeue", "dlq_delete", "messages_cancel", "messages_requeue", "messages_resume":
		a["ids"] = []string{"no-such-message"}
		a["reason"] = "verif gate probe"
	case "messages_cancel_by_filter", "messages_requeue_by_filter", "messages_resume_by_filter":
		a["route"] = "/no-such-route"
		a["reason"] = "verif gate probe"
	case "messages_publish":
		a["items"] = []map[string]any{{"route": "/no-such-route", "payload_b64": "eA=="}}
		a["reason"] = "verif gate probe"
	case "config_apply":
		a["content"] = string(e.cfgText)
		a["mode"] = "preview_only"
	case "management_endpoint_upsert":
		a["application"], a["endpoint_name"], a["route"], a["reason"] = "app", "ep", "/no-such-route", "verif gate probe"
	case "management_endpoint_delete":
		a["application"], a["endpoint_name"], a["reason"] = "app", "ep", "verif gate probe"
	case "config_diff":
		a["content"] = string(e.cfgText)
	}
	if actor != "" {
		if t := mcpTools[tool]; t.mutating && !t.rc && tool != "config_apply" {
			a["actor"] = actor
		}
	}
	return a
}

func isErrorResult(resp map[string]any) bool {
	if resp == nil {
		return true
	}
	if resp["error"] != nil {
		return true
	}
	res, _ := resp["result"].(map[string]any)
	if res == nil {
		return true
	}
	b, _ := res["isError"].(bool)
	return b
}

var auditFields = []string{"timestamp", "principal", "role", "tool", "input_hash", "result", "duration_ms"}

// RunMCPProgram executes one MCP case: Step{Op:"mcpgate", Route: role, Pad: mutations, Batch: runtime-control(0/1), Reason: principal}
// or Step{Op:"mcpapply", Reason: variant}.
func RunMCPProgram(p *Program) *Result {
	res := &Result{}
	env, err := newMCPEnv()
	if err != nil {
		res.Trouble = err.Error()
		return res
	}
	defer env.close()
	add := func(rule, loc, format string, a ...any) {
		v := viol(rule, "C20", format, a...)
		v.Loc = loc
		res.Violations = append(res.Violations, v)
		res.logf("  VIOLATION %s", v.String())
	}
	for _, s := range p.Steps {
		switch s.Op {
		case "mcpgate":
			c := mcpCfg{Role: s.Route, Mut: s.Pad, RC: s.Batch == 1, Principal: s.Reason}
			loc := fmt.Sprintf("mcp/gate/%s/mut=%v/rc=%v/principal=%v", c.Role, c.Mut, c.RC, c.Principal != "")
			res.logf("mcp gate role=%s mutations=%v runtime_control=%v principal=%q", c.Role, c.Mut, c.RC, c.Principal)
			// tools/list
			resp, _ := env.call(c, "tools/list", map[string]any{})
			listed := map[string]bool{}
			if r, _ := resp["result"].(map[string]any); r != nil {
				if ts, _ := r["tools"].([]any); ts != nil {
					for _, t := range ts {
						if m, _ := t.(map[string]any); m != nil {
							listed[fmt.Sprint(m["name"])] = true
						}
					}
				}
			}
			var names []string
			for n := range mcpTools {
				names = append(names, n)
			}
			sort.Strings(names)
			for _, n := range names {
				if listed[n] != c.allowed(n) {
					add("C20.list", loc, "tools/list advertises %s = %v, the gate says allowed = %v", n, listed[n], c.allowed(n))
				}
			}
			for n := range listed {
				if _, ok := mcpTools[n]; !ok {
					add("C20.list.unknown", loc, "tools/list advertises %q which the specification does not list", n)
				}
			}
			// tools/call for every tool
			for _, n := range append(append(append([]string(nil), names...), mcpUnknownTools...), mcpPaddedTools...) {
				res.Ops++
				before := env.snapshot()
				resp, audit := env.call(c, "tools/call", map[string]any{"name": n, "arguments": benignArgs(strings.TrimSpace(n), env, "")})
				after := env.snapshot()
				t, known := mcpTools[n]
				allowed := c.allowed(n)
				isErr := isErrorResult(resp)
				if tt := strings.TrimSpace(n); tt != n {
					// A name that is not exactly a tool's name: either it is refused as
					// unknown (error, no effect), or the server treats it as the tool it
					// resembles - then that tool's gate and audit duties apply in full.
					if isErr && before == after && len(audit) == 0 {
						res.probe("gate.padded_name.refused_as_unknown")
						continue
					}
					res.probe("gate.padded_name.handled_as_tool")
					if !c.allowed(tt) {
						if !isErr {
							add("C20.denied.ran", loc+"/"+tt+"+pad", "a call named %q was handled as tool %s, which must be refused (role %s, mutations %v, runtime control %v, principal %q), but answered success", n, tt, c.Role, c.Mut, c.RC, c.Principal)
						}
						if before != after {
							add("C20.denied.effect", loc+"/"+tt+"+pad", "a refused call named %q changed the queue or the config directory", n)
						}
					}
					want := 0
					if mcpTools[tt].mutating {
						want = 1
					}
					if len(audit) != want {
						add("C20.audit.count", loc+"/"+tt+"+pad", "a call named %q was handled as tool %s (mutating=%v) and produced %d audit records, want %d", n, tt, mcpTools[tt].mutating, len(audit), want)
					}
					continue
				}
				res.probe(fmt.Sprintf("gate.%v", allowed))
				if !allowed {
					if !isErr {
						add("C20.denied.ran", loc+"/"+n, "tool %s must be refused (role %s, mutations %v, runtime control %v, principal %q) but answered success", n, c.Role, c.Mut, c.RC, c.Principal)
					}
					if before != after {
						add("C20.denied.effect", loc+"/"+n, "refused tool %s changed the queue or the config directory", n)
					}
				} else if !t.mutating && !t.rc && isErr {
					add("C20.allowed.refused", loc+"/"+n, "read tool %s is allowed for role %s but answered an error: %v", n, c.Role, resp)
				}
				// audit
				wantLines := 0
				if known && t.mutating {
					wantLines = 1
				}
				if len(audit) != wantLines {
					add("C20.audit.count", loc+"/"+n, "tool %s (mutating=%v) produced %d audit records, want %d", n, known && t.mutating, len(audit), wantLines)
				}
				for _, a := range audit {
					for _, f := range auditFields {
						if _, ok := a[f]; !ok {
							add("C20.audit.field", loc+"/"+n, "audit record of %s lacks %q: %v", n, f, a)
						}
					}
					if fmt.Sprint(a["tool"]) != n || fmt.Sprint(a["principal"]) != strings.TrimSpace(c.Principal) || fmt.Sprint(a["role"]) != c.Role {
						add("C20.audit.content", loc+"/"+n, "audit record of %s has tool=%v principal=%v role=%v", n, a["tool"], a["principal"], a["role"])
					}
					result := fmt.Sprint(a["result"])
					if !allowed && result != "denied" {
						add("C20.audit.result", loc+"/"+n, "refused call of %s audited as %q", n, result)
					}
					if allowed && result == "denied" {
						add("C20.allowed.denied", loc+"/"+n, "allowed call of %s (role %s) was refused by the gate: %v", n, c.Role, a["error"])
					}
				}
				// actor must equal the principal
				if allowed && t.mutating && !t.rc && n != "config_apply" {
					// a stranger, and near misses of the configured principal: another letter case, one
					// character short, one character more (the property says "equals")
					pr := strings.TrimSpace(c.Principal)
					for _, actor := range []string{"someone-else@example.test", strings.ToUpper(pr[:1]) + pr[1:], strings.ToUpper(pr), pr[:len(pr)-1], pr + "x"} {
						if actor == pr {
							continue
						}
						b2 := env.snapshot()
						resp2, audit2 := env.call(c, "tools/call", map[string]any{"name": n, "arguments": benignArgs(n, env, actor)})
						if !isErrorResult(resp2) {
							add("C20.actor.mismatch.ran", loc+"/"+n, "tool %s ran with actor %q != principal %q", n, actor, pr)
						}
						if env.snapshot() != b2 {
							add("C20.actor.mismatch.effect", loc+"/"+n, "tool %s with actor %q (principal %q) changed state", n, actor, pr)
						}
						if len(audit2) != 1 {
							add("C20.audit.count", loc+"/"+n, "tool %s with actor %q (principal %q) produced %d audit records", n, actor, pr, len(audit2))
						}
					}
					res.probe("actor.mismatch")
				}
			}
		case "mcpapply":
			runMCPApply(res, env, s.Reason, add)
		default:
			res.Trouble = "mcp world: unknown op " + s.Op
		}
	}
	return res
}

func compiles(text []byte) bool {
	cfg, err := config.Parse(text)
	if err != nil {
		return false
	}
	_, r := config.Compile(cfg)
	return r.OK
}

func runMCPApply(res *Result, env *mcpEnv, variant string, add func(rule, loc, format string, a ...any)) {
	c := mcpCfg{Role: "admin", Mut: true, Principal: "ops@example.test"}
	loc := "mcp/apply/" + variant
	good := strings.Replace(mcpConfigText, "\"/a\" {", "\"/a2\" {\n  pull {\n    path \"/pull/a2\"\n  }\n}\n\"/a\" {", 1)
	args := map[string]any{"content": good, "mode": "write_only"}
	wantWrite := true
	switch variant {
	case "valid":
	case "preview":
		args["mode"] = "preview_only"
		wantWrite = false
	case "invalid_parse":
		args["content"] = good + "\n\"/x\" {{{\n"
		wantWrite = false
	case "invalid_compile":
		args["content"] = good + "\n\"/a\" {\n  pull { path \"/pull/dup\" }\n}\n"
		wantWrite = false
	case "foreign_path":
		args["path"] = filepath.Join(env.dir, "elsewhere", "Hookaidofile")
		wantWrite = false
	case "foreign_path_traversal":
		args["path"] = env.cfgPath + "/../Other"
		wantWrite = false
	case "unknown_key":
		args["force"] = true
		wantWrite = false
	case "unknown_mode":
		args["mode"] = "yolo"
		wantWrite = false
	case "upsert_foreign_route":
		// management upsert naming a route that does not exist: refused, nothing written
		wantWrite = false
	case "foreign_symlink_path", "foreign_hardlink_path":
		// another name for the very same file: still not the configured path
		other := filepath.Join(env.dir, "alias-of-Hookaidofile")
		_ = os.Remove(other)
		if variant == "foreign_symlink_path" {
			_ = os.Symlink(env.cfgPath, other)
		} else {
			_ = os.Link(env.cfgPath, other)
		}
		defer os.Remove(other)
		args["path"] = other
		wantWrite = false
	case "reload_unverifiable":
		// write_and_reload with content that compiles but whose admin token cannot
		// be loaded by this process: the reload cannot be verified (the health
		// probe cannot even be set up - no network is touched), so the call fails
		// and the previous file has to be back
		args["mode"] = "write_and_reload"
		args["content"] = strings.Replace(good, "admin_api {\n  listen 127.0.0.3:0\n}", "admin_api {\n  listen 127.0.0.3:0\n  auth token \"file:/nonexistent/verif/admin-token\"\n}", 1)
		wantWrite = false
	}
	fs := NewSimFS()
	fs.AddExisting(env.cfgPath, env.cfgText)
	fs.Install()
	before := env.snapshot()
	var resp map[string]any
	var audit []map[string]any
	if variant == "upsert_foreign_route" {
		resp, audit = env.call(c, "tools/call", map[string]any{"name": "management_endpoint_upsert", "arguments": map[string]any{"application": "app", "endpoint_name": "ep", "route": "/no-such-route", "reason": "verif"}})
	} else {
		resp, audit = env.call(c, "tools/call", map[string]any{"name": "config_apply", "arguments": args})
	}
	UninstallSimFS()
	res.Ops++
	after, _ := os.ReadFile(env.cfgPath)
	res.logf("mcp config apply variant=%s -> isError=%v, file %d bytes, %d verifos calls", variant, isErrorResult(resp), len(after), fs.Calls)
	if len(audit) != 1 {
		add("C20.audit.count", loc, "config-writing call produced %d audit records", len(audit))
	}
	// confinement: every path written lies at the configured path (or its temp sibling)
	for _, pth := range sortedPaths(fs.Paths) {
		if filepath.Dir(pth) != filepath.Dir(env.cfgPath) && pth != filepath.Dir(env.cfgPath) {
			add("C20.confinement", loc, "config-writing tool touched %s, outside the directory of the configured config path", pth)
		}
	}
	if variant == "foreign_symlink_path" {
		if fi, err := os.Lstat(filepath.Join(env.dir, "alias-of-Hookaidofile")); err != nil || fi.Mode()&os.ModeSymlink == 0 {
			add("C20.confinement", loc, "config_apply with a symlink to the config file as path replaced the symlink (err=%v)", err)
		}
	}
	if variant == "foreign_hardlink_path" {
		if b, err := os.ReadFile(filepath.Join(env.dir, "alias-of-Hookaidofile")); err != nil || !bytes.Equal(b, env.cfgText) {
			add("C20.confinement", loc, "config_apply with a hard link of the config file as path wrote through the other name")
		}
	}
	ents, _ := os.ReadDir(env.dir)
	for _, en := range ents {
		if en.Name() != "Hookaidofile" && en.Name() != "alias-of-Hookaidofile" && !strings.HasPrefix(en.Name(), "q.db") {
			add("C20.confinement.stray", loc, "config-writing tool left %s behind", en.Name())
		}
	}
	if !compiles(after) {
		add("C20.apply.uncompilable", loc, "after config_apply (%s) the config file does not compile", variant)
	}
	if variant == "reload_unverifiable" {
		if r, _ := resp["result"].(map[string]any); r != nil {
			if sc, _ := r["structuredContent"].(map[string]any); sc != nil {
				if ok, _ := sc["ok"].(bool); ok {
					add("C20.apply.unverified_ok", loc, "config_apply write_and_reload reported ok although the reload could not be verified")
				}
			}
		}
		res.probe("apply.reload_unverifiable")
	}
	if wantWrite {
		if isErrorResult(resp) {
			add("C20.apply.refused", loc, "valid config_apply write_only was refused: %v", resp)
		} else if string(after) != good {
			add("C20.apply.notwritten", loc, "config_apply write_only reported success but the file does not hold the submitted content")
		}
		res.probe("apply.written")
	} else {
		if !bytes.Equal(after, env.cfgText) {
			add("C20.apply.effect", loc, "config_apply variant %s must not change the file but it did", variant)
		}
		if variant != "valid" && variant != "preview" && before != env.snapshot() {
			add("C20.apply.effect", loc, "refused config-writing call changed queue or config directory")
		}
		res.probe("apply.refused")
	}
	_ = time.Second
}

func EnumMCPCases() []*Program {
	var out []*Program
	for _, role := range []string{"read", "operate", "admin"} {
		for _, mut := range []bool{false, true} {
			for rc := 0; rc <= 1; rc++ {
				for _, principal := range []string{"", "ops@example.test", "   "} {
					out = append(out, &Program{World: "mcp", Steps: []Step{{Op: "mcpgate", Route: role, Pad: mut, Batch: rc, Reason: principal}}})
				}
			}
		}
	}
	for _, v := range []string{"valid", "preview", "invalid_parse", "invalid_compile", "foreign_path", "foreign_path_traversal", "unknown_key", "unknown_mode", "upsert_foreign_route", "reload_unverifiable", "foreign_symlink_path", "foreign_hardlink_path"} {
		out = append(out, &Program{World: "mcp", Steps: []Step{{Op: "mcpapply", Reason: v}}})
	}
	return out
}

func init() {
	Register(&CheckSpec{
		Prop: "C20", World: "mcp",
		Run: RunMCPProgram, Enum: EnumMCPCases,
		Level:      "other",
		NonTrivial: func(p *Program, r *Result) bool { return r.Ops >= 1 },
		Rule:       "complete enumeration of the MCP gate table: 31 known + 4 unknown + 8 white-space-padded tool names x role {read, operate, admin} x --enable-mutations x --enable-runtime-control x principal {absent, present, blank} (36 server configurations x 43 names; a padded name is either refused as unknown without effect or held to the gate and audit duties of the tool it resembles; plus the foreign-actor variant of every allowed mutating tool) against the reference gate written from internal/mcp/spec.md; tools/list = allowed set; refused => queue listing and config directory unchanged; exactly one audit record with all seven fields per mutating call; plus 12 config_apply / management variants (valid write, preview, parse/compile-invalid content, foreign and traversing paths, a symlink to and a hard link of the config file as path, unknown keys/modes, write_and_reload whose reload cannot be verified: previous file back) over simfs with every touched path logged; distinct = (server configuration) and (apply variant) cases",
		RealStub: map[string]string{
			"mcp.Server (Serve loop, framing, callTool, gating, audit, config_apply, management tools, SQLite-mode queue tools)": "real, over in-memory pipes",
			"MCP admin-proxy mode, write_and_reload, runtime-control beyond the gate":                                            "not exercised (private http.Transport with a real dialer / real processes); allowed runtime-control tools fail their set-up check (no --pid-file) after the gate, so no process is started",
			"config file writes": "verifos (write-through + journal) during the apply variants",
		},
		Quick: 1, Thorough: 1,
		Assumptions: []string{"C20(1) is plain enumeration of a finite table, not schedule exploration (level 'other')"},
	})
}
