package sim

import (
	"fmt"
	"strings"
	"time"

	"pgregory.net/rapid"
)

// StoreProfile steers the W-store generator for a property.
type StoreProfile struct {
	Backends   []string
	Limits     bool // queue_limits configurations
	Retention  bool // retention / delivered / dlq configurations
	Pressure   bool // memory pressure limits (memory backend)
	MaxSteps   int
	Weights    map[string]int // op -> weight
	ExplicitTS bool           // enqueue with explicit received_at / next_run_at
	PaddedIDs  bool
	TieRecv    bool // several messages with identical received_at
	NoIdioms   bool // independent steps only
	Headers    bool // most messages carry headers (several entries)
}

var defaultWeights = map[string]int{
	"enqueue": 22, "enqueue_batch": 5, "dequeue": 18, "advance": 14,
	"ack": 6, "nack": 6, "extend": 3, "dead": 5,
	"ack_batch": 2, "nack_batch": 2, "dead_batch": 2,
	"cancel": 3, "requeue": 3, "resume": 2, "dlq_requeue": 2, "dlq_delete": 2,
	"cancel_f": 2, "requeue_f": 2, "resume_f": 1,
	"list": 2, "list_dead": 1, "stats": 1, "lookup": 1,
	"attempt": 3, "list_attempts": 2,
}

// oddHeaderValues: field values an HTTP server hands to its handler unchanged (no control characters
// other than HTAB) that are awkward for whatever encodes the header map for storage.
var oddHeaderValues = []string{
	"caf\u00e9", "\U0001F3F4\U000E0067\U000E0062\U000E007F", "\U0010FFFD", "\U000F0000x", "\u2028line\u2029", "q\"uote\\back/slash", "<a&b>'",
	"tab\there", "\u0085nel", "\ufeffbom", "\ufffd", "%00%ff", "a,b, c", "  ", "\u00a0nbsp", "{\"k\":[1]}", "\\U000e0067", "\\u00e9",
	"@hex:fffe", "@hex:c328", "@hex:e9", "@hex:61ed", "@hex:eda080",
}

// the first oddHeaderValuesUTF8 entries are valid UTF-8: the Pull API answers in JSON and the Worker API in
// proto3 strings, neither of which can carry other bytes, so the pull world draws from those only
// (C07 speaks of the stored headers; the store and diff worlds draw from all of them)
var oddHeaderValuesUTF8 = func() int {
	for i, v := range oddHeaderValues {
		if strings.HasPrefix(v, "@hex:") {
			return i
		}
	}
	return len(oddHeaderValues)
}()

var genRoutes = []string{"/r0", "/r1", "/r2"}
var genTargets = []string{"pull", "https://t1.example/hook", "https://t2.example/hook"}
var genTTLs = []time.Duration{0, time.Millisecond, 5 * time.Millisecond, 20 * time.Millisecond, time.Second, 30 * time.Second}
var genAdvances = []time.Duration{
	1, time.Millisecond, 4 * time.Millisecond, 5 * time.Millisecond, 9 * time.Millisecond, 10 * time.Millisecond,
	11 * time.Millisecond, 20 * time.Millisecond, 999 * time.Millisecond, time.Second, 30 * time.Second, 30*time.Second + 1,
	time.Minute, time.Hour, 25 * time.Hour,
}
var genDelays = []time.Duration{-time.Second, 0, time.Millisecond, 10 * time.Millisecond, time.Second, time.Minute}
var genStates = []string{"", "queued", "leased", "dead", "canceled", "delivered"}

func weighted(t *rapid.T, w map[string]int, label string) string {
	keys := make([]string, 0, len(w))
	total := 0
	for _, k := range sortedKeys(w) {
		if w[k] > 0 {
			keys = append(keys, k)
			total += w[k]
		}
	}
	n := rapid.IntRange(0, total-1).Draw(t, label)
	for _, k := range keys {
		n -= w[k]
		if n < 0 {
			return k
		}
	}
	return keys[len(keys)-1]
}

func sortedKeys(w map[string]int) []string {
	keys := make([]string, 0, len(w))
	for k := range w {
		keys = append(keys, k)
	}
	// insertion sort: tiny maps, no import needed
	for i := 1; i < len(keys); i++ {
		for j := i; j > 0 && keys[j] < keys[j-1]; j-- {
			keys[j], keys[j-1] = keys[j-1], keys[j]
		}
	}
	return keys
}

func genQConfig(t *rapid.T, prof StoreProfile) QConfig {
	cfg := QConfig{Backend: rapid.SampledFrom(prof.Backends).Draw(t, "backend")}
	if prof.Limits && rapid.IntRange(0, 9).Draw(t, "limits?") < 6 {
		cfg.MaxDepth = rapid.IntRange(1, 6).Draw(t, "max_depth")
		cfg.DropPolicy = rapid.SampledFrom([]string{"reject", "drop_oldest"}).Draw(t, "drop_policy")
	}
	if prof.Retention && rapid.IntRange(0, 9).Draw(t, "retention?") < 4 {
		ages := []time.Duration{0, 10 * time.Millisecond, time.Second, time.Minute, time.Hour}
		cfg.RetentionMaxAge = rapid.SampledFrom(ages).Draw(t, "retention_age")
		cfg.PruneInterval = rapid.SampledFrom([]time.Duration{0, time.Millisecond, time.Second, 5 * time.Minute}).Draw(t, "prune_interval")
		cfg.DLQMaxAge = rapid.SampledFrom(ages).Draw(t, "dlq_age")
		cfg.DLQMaxDepth = rapid.SampledFrom([]int{0, 0, 1, 2, 3}).Draw(t, "dlq_depth")
	}
	if prof.Retention && rapid.IntRange(0, 9).Draw(t, "delivered?") < 3 {
		cfg.DeliveredMaxAge = rapid.SampledFrom([]time.Duration{10 * time.Millisecond, time.Second, time.Hour}).Draw(t, "delivered_age")
		if cfg.PruneInterval == 0 && rapid.Bool().Draw(t, "delivered_prune") {
			cfg.PruneInterval = time.Second
		}
	}
	if prof.Pressure && cfg.Backend == "memory" && rapid.IntRange(0, 9).Draw(t, "pressure?") < 3 {
		cfg.MemPressureItems = rapid.IntRange(1, 4).Draw(t, "pressure_items")
	}
	return cfg
}

type storeGen struct {
	t    *rapid.T
	prof StoreProfile
}

// References are drawn as small integers and resolved at execution time
// counted from the most recent item (0 = newest), modulo what exists; the
// generator therefore needs no state and rapid can delete steps freely.

func (g *storeGen) envSpec(label string) EnvSpec {
	t := g.t
	e := EnvSpec{
		Route:  rapid.SampledFrom(genRoutes).Draw(t, label+".route"),
		Target: rapid.SampledFrom(genTargets).Draw(t, label+".target"),
	}
	switch k := rapid.IntRange(0, 19).Draw(t, label+".idkind"); {
	case k < 13:
		e.ID = "new" // executor assigns the next explicit id
	case k < 16:
		// store-generated id
	default:
		e.DupOfRef = intp(rapid.IntRange(0, 7).Draw(t, label+".dup"))
	}
	if rapid.IntRange(0, 4).Draw(t, label+".hdr") == 0 {
		e.Headers = map[string]string{"X-K": "v"}
	} else if g.prof.Headers && rapid.IntRange(0, 3).Draw(t, label+".hdrs") != 0 {
		e.Headers = map[string]string{"X-K": "v", "X-Request-Id": "r-" + label, "Content-Type": "application/json", "X-Empty": ""}
	}
	if g.prof.Headers && rapid.IntRange(0, 3).Draw(t, label+".oddhdr") == 0 {
		if e.Headers == nil {
			e.Headers = map[string]string{}
		}
		e.Headers["X-Odd"] = rapid.SampledFrom(oddHeaderValues).Draw(t, label+".oddval")
	}
	if g.prof.ExplicitTS {
		switch rapid.IntRange(0, 9).Draw(t, label+".ts") {
		case 0:
			e.RecvOff = int64p(-int64(rapid.SampledFrom(genAdvances).Draw(t, label+".recv")))
		case 1:
			e.NextOff = int64p(int64(rapid.SampledFrom(genAdvances).Draw(t, label+".next")))
		}
	}
	return e
}

func (g *storeGen) leaseRef(label string) int {
	t := g.t
	k := rapid.IntRange(0, 19).Draw(t, label+".kind")
	switch {
	case k == 0:
		return -1
	case k == 1:
		return -2
	case k == 2:
		return -3 - rapid.IntRange(0, 3).Draw(t, label+".unk")
	case k < 13:
		return rapid.IntRange(0, 2).Draw(t, label+".recent")
	}
	return rapid.IntRange(0, 15).Draw(t, label+".any")
}

func (g *storeGen) idRefs(label string) []int {
	t := g.t
	n := rapid.IntRange(0, 4).Draw(t, label+".n")
	out := make([]int, 0, n)
	for i := 0; i < n; i++ {
		k := rapid.IntRange(0, 14).Draw(t, label+".kind")
		switch {
		case k == 0:
			out = append(out, -1)
		case k == 1:
			out = append(out, -2)
		case k == 2:
			out = append(out, -3)
		default:
			out = append(out, rapid.IntRange(0, 15).Draw(t, label+".ref"))
		}
	}
	return out
}

func (g *storeGen) filterSpec(label string, list bool) *FilterSpec {
	t := g.t
	f := &FilterSpec{}
	if rapid.IntRange(0, 2).Draw(t, label+".r?") == 0 {
		f.Route = rapid.SampledFrom(genRoutes).Draw(t, label+".route")
	}
	if rapid.IntRange(0, 3).Draw(t, label+".t?") == 0 {
		f.Target = rapid.SampledFrom(genTargets).Draw(t, label+".target")
	}
	if rapid.IntRange(0, 1).Draw(t, label+".s?") == 0 {
		f.State = rapid.SampledFrom(genStates).Draw(t, label+".state")
	}
	f.Limit = rapid.SampledFrom([]int{0, 0, 1, 2, 3, 1001, -1}).Draw(t, label+".limit")
	if rapid.IntRange(0, 3).Draw(t, label+".b?") == 0 {
		f.BeforeRef = intp(rapid.IntRange(0, 15).Draw(t, label+".before"))
		f.BeforeOff = rapid.SampledFrom([]int64{0, 0, 1, -1, int64(time.Millisecond)}).Draw(t, label+".boff")
	}
	if list {
		f.Order = rapid.SampledFrom([]string{"", "asc", "desc", "ASC ", "sideways"}).Draw(t, label+".order")
	} else {
		f.Preview = rapid.IntRange(0, 3).Draw(t, label+".preview") == 0
	}
	return f
}

func (g *storeGen) step() Step {
	t := g.t
	w := g.prof.Weights
	if w == nil {
		w = defaultWeights
	}
	lbl := "s"
	op := weighted(t, w, lbl+".op")
	s := Step{Op: op}
	switch op {
	case "enqueue":
		e := g.envSpec(lbl)
		s.Env = &e
	case "enqueue_batch":
		k := rapid.IntRange(1, 4).Draw(t, lbl+".n")
		for j := 0; j < k; j++ {
			s.Items = append(s.Items, g.envSpec(lbl))
		}
		if k > 1 && rapid.IntRange(0, 5).Draw(t, lbl+".selfdup") == 0 {
			s.Items[k-1].ID = "same0"
			s.Items[k-1].DupOfRef = nil
		}
	case "dequeue":
		if rapid.IntRange(0, 3).Draw(t, lbl+".r?") != 0 {
			s.Route = rapid.SampledFrom(genRoutes).Draw(t, lbl+".route")
		}
		if rapid.IntRange(0, 3).Draw(t, lbl+".t?") == 0 {
			s.Target = rapid.SampledFrom(genTargets).Draw(t, lbl+".target")
		}
		s.Batch = rapid.SampledFrom([]int{0, 1, 1, 2, 3, 5, 101, -1}).Draw(t, lbl+".batch")
		s.TTL = rapid.SampledFrom(genTTLs).Draw(t, lbl+".ttl")
	case "advance":
		s.D = rapid.SampledFrom(genAdvances).Draw(t, lbl+".d")
	case "clockback":
		s.D = rapid.SampledFrom([]time.Duration{time.Millisecond, 20 * time.Millisecond, time.Second, 29 * time.Second, time.Minute}).Draw(t, lbl+".back")
	case "ack", "nack", "extend", "dead":
		s.LeaseRef = intp(g.leaseRef(lbl))
		if op == "nack" || op == "extend" {
			s.Delay = rapid.SampledFrom(genDelays).Draw(t, lbl+".delay")
		}
		if op == "dead" {
			s.Reason = rapid.SampledFrom([]string{"", "no_retry", "manual", " spaced "}).Draw(t, lbl+".reason")
		}
		if g.prof.PaddedIDs && rapid.IntRange(0, 9).Draw(t, lbl+".pad") == 0 {
			s.Pad = true
		}
	case "ack_batch", "nack_batch", "dead_batch":
		k := rapid.IntRange(0, 4).Draw(t, lbl+".n")
		for j := 0; j < k; j++ {
			s.LeaseRefs = append(s.LeaseRefs, g.leaseRef(lbl))
		}
		if k > 1 && rapid.IntRange(0, 3).Draw(t, lbl+".dup") == 0 {
			s.LeaseRefs[k-1] = s.LeaseRefs[0]
		}
		if op == "nack_batch" {
			s.Delay = rapid.SampledFrom(genDelays).Draw(t, lbl+".delay")
		}
		if op == "dead_batch" {
			s.Reason = rapid.SampledFrom([]string{"", "no_retry", "manual"}).Draw(t, lbl+".reason")
		}
	case "cancel", "requeue", "resume", "dlq_requeue", "dlq_delete", "lookup":
		s.IDRefs = g.idRefs(lbl)
	case "cancel_f", "requeue_f", "resume_f":
		s.Filter = g.filterSpec(lbl, false)
	case "list", "list_dead":
		s.Filter = g.filterSpec(lbl, true)
	case "attempt":
		s.Route = rapid.SampledFrom(genRoutes[:2]).Draw(t, lbl+".route")
		s.Target = rapid.SampledFrom(genTargets[1:]).Draw(t, lbl+".target")
		s.Batch = rapid.IntRange(0, 11).Draw(t, lbl+".n")
		s.D = rapid.SampledFrom([]time.Duration{0, 0, -time.Second, -10 * time.Second, -30 * time.Second, time.Second}).Draw(t, lbl+".at")
	case "list_attempts":
		if rapid.Bool().Draw(t, lbl+".r?") {
			s.Route = rapid.SampledFrom(genRoutes[:2]).Draw(t, lbl+".route")
		}
		if rapid.IntRange(0, 3).Draw(t, lbl+".e?") == 0 {
			s.Reason = fmt.Sprintf("evt-%d", rapid.IntRange(0, 2).Draw(t, lbl+".event"))
		}
		s.Batch = rapid.SampledFrom([]int{0, 1, 1, 2, 3, 5}).Draw(t, lbl+".limit")
	case "stats":
	}
	return s
}

// GenStoreProgram draws a W-store program. rapid is the only choice source.
func GenStoreProgram(t *rapid.T, prof StoreProfile) *Program {
	p := &Program{World: "store"}
	p.Store = genQConfig(t, prof)
	p.Offset = rapid.SampledFrom([]int64{0, 1, 500_000_000, 999_999_999, 123_456_789}).Draw(t, "clock_offset")
	max := prof.MaxSteps
	if max == 0 {
		max = 40
	}
	g := &storeGen{t: t, prof: prof}
	groups := rapid.SliceOfN(rapid.Custom(func(t *rapid.T) []Step {
		g2 := &storeGen{t: t, prof: g.prof}
		if !g.prof.NoIdioms && rapid.IntRange(0, 7).Draw(t, "idiom?") == 0 {
			return g2.idiom()
		}
		return []Step{g2.step()}
	}), 1, max).Draw(t, "steps")
	for _, grp := range groups {
		p.Steps = append(p.Steps, grp...)
	}
	return p
}

// idiom draws a short group of steps that belong together. Independent random
// steps seldom line up route, target and lease reference; the idioms put the
// store into the situations the properties talk about (a dead letter, a
// delivered message, an expired lease next to a valid one, a full queue, a due
// prune pass, a large backlog) and the surrounding random steps vary the rest.
// The minimiser still removes their steps one by one.
func (g *storeGen) idiom() []Step {
	t := g.t
	route := rapid.SampledFrom(genRoutes).Draw(t, "i.route")
	target := rapid.SampledFrom(genTargets).Draw(t, "i.target")
	enq := func() Step { return Step{Op: "enqueue", Env: &EnvSpec{ID: "new", Route: route, Target: target}} }
	deq := func(ttl time.Duration) Step {
		return Step{Op: "dequeue", Route: route, Target: target, Batch: 1, TTL: ttl}
	}
	switch rapid.SampledFrom([]string{"dead", "acked", "expired", "mixed_batch", "fill", "prune_pass", "bulk", "newer_rows", "staggered", "staggered", "extended", "attempts", "buckets", "foreign_backlog"}).Draw(t, "i.kind") {
	case "foreign_backlog":
		// a long ready backlog of one route ahead (by due time) of a few messages of another, then batch
		// dequeues for the other route, with and without a target: it gets min(batch, its ready messages)
		n := rapid.SampledFrom([]int{17, 33, 41, 90}).Draw(t, "i.fbn")
		other := genRoutes[(indexOf(genRoutes, route)+1)%len(genRoutes)]
		out := []Step{{Op: "enqueue_batch", Bulk: n, Items: []EnvSpec{{ID: "new", Route: other, Target: target}}}, {Op: "advance", D: time.Millisecond}}
		for k := rapid.IntRange(1, 4).Draw(t, "i.fbk"); k > 0; k-- {
			out = append(out, enq())
		}
		for k := rapid.IntRange(1, 3).Draw(t, "i.fbpolls"); k > 0; k-- {
			d := deq(30 * time.Second)
			d.Batch = rapid.SampledFrom([]int{2, 2, 3, 5}).Draw(t, "i.fbbatch")
			if rapid.Bool().Draw(t, "i.fbanytarget") {
				d.Target = ""
			}
			out = append(out, d)
		}
		return out
	case "buckets":
		// more (route, target) buckets with a backlog than a backlog summary lists: a straggler on a quiet
		// route (optionally due later than everything else), then 9-13 busier buckets, then the statistics
		straggler := EnvSpec{ID: "new", Route: "/quiet", Target: target}
		if rapid.Bool().Draw(t, "i.bnext") {
			straggler.NextOff = int64p(-int64(time.Second))
		}
		out := []Step{{Op: "enqueue", Env: &straggler}, {Op: "advance", D: time.Millisecond}}
		nb := rapid.IntRange(9, 13).Draw(t, "i.bn")
		for b := 0; b < nb; b++ {
			rt := fmt.Sprintf("/b%02d", b)
			st := Step{Op: "enqueue_batch"}
			for k := rapid.IntRange(2, 3).Draw(t, "i.bk"); k > 0; k-- {
				st.Items = append(st.Items, EnvSpec{ID: "new", Route: rt, Target: target})
			}
			out = append(out, st)
		}
		return append(out, Step{Op: "stats"})
	case "attempts":
		// delivery-attempt records whose times do not follow the order in which
		// they were recorded (several workers stamp their own), then a listing
		// that does not take them all
		rt := rapid.SampledFrom(genRoutes[:2]).Draw(t, "i.aroute")
		tg := rapid.SampledFrom(genTargets[1:]).Draw(t, "i.atarget")
		var out []Step
		for k := rapid.IntRange(2, 4).Draw(t, "i.an"); k > 0; k-- {
			out = append(out, Step{Op: "attempt", Route: rt, Target: tg, Batch: rapid.IntRange(0, 11).Draw(t, "i.aid"),
				D: rapid.SampledFrom([]time.Duration{0, -time.Second, -10 * time.Second, -30 * time.Second, time.Second, 5 * time.Second}).Draw(t, "i.aat")})
		}
		ls := Step{Op: "list_attempts", Batch: rapid.IntRange(1, 2).Draw(t, "i.alimit")}
		if rapid.Bool().Draw(t, "i.ar?") {
			ls.Route = rt
		}
		return append(out, ls)
	case "dead":
		return []Step{enq(), deq(30 * time.Second), {Op: "dead", LeaseRef: intp(0), Reason: "manual"}}
	case "acked":
		return []Step{enq(), deq(30 * time.Second), {Op: "ack", LeaseRef: intp(0)}}
	case "expired":
		return []Step{enq(), deq(5 * time.Millisecond), {Op: "advance", D: rapid.SampledFrom([]time.Duration{5 * time.Millisecond, 6 * time.Millisecond, 20 * time.Millisecond}).Draw(t, "i.d")}}
	case "mixed_batch":
		// a still-valid and an expired-but-unswept lease settled in one batch call
		op := rapid.SampledFrom([]string{"ack_batch", "nack_batch", "dead_batch"}).Draw(t, "i.op")
		refs := rapid.SampledFrom([][]int{{0, 1}, {1, 0}, {0, 1, -3}, {1, -1, 0}}).Draw(t, "i.refs")
		return []Step{enq(), enq(), deq(5 * time.Millisecond), deq(30 * time.Second), {Op: "advance", D: 20 * time.Millisecond}, {Op: op, LeaseRefs: refs, Delay: time.Second, Reason: "manual"}}
	case "fill":
		n := rapid.IntRange(2, 6).Draw(t, "i.n")
		s := Step{Op: "enqueue_batch"}
		for i := 0; i < n; i++ {
			s.Items = append(s.Items, EnvSpec{ID: "new", Route: route, Target: target})
		}
		return []Step{s}
	case "prune_pass":
		d := rapid.SampledFrom([]time.Duration{time.Second, 5 * time.Minute, time.Hour + time.Second}).Draw(t, "i.d")
		obs := rapid.SampledFrom([]string{"stats", "list", "list_dead", "dequeue"}).Draw(t, "i.obs")
		st := Step{Op: obs}
		if obs == "dequeue" {
			st = deq(time.Second)
		}
		return []Step{{Op: "advance", D: d}, st}
	case "staggered":
		// several leases outstanding at once with different expiry instants, then
		// polls at instants between, at and after those expiries: each message has
		// to come back at its own expiry (and not before)
		n := rapid.IntRange(2, 4).Draw(t, "i.n")
		ttls := []time.Duration{5 * time.Millisecond, 20 * time.Millisecond, time.Second, 30 * time.Second}
		gaps := []time.Duration{time.Millisecond, 5 * time.Millisecond, 15 * time.Millisecond, 20 * time.Millisecond, 999 * time.Millisecond, time.Second, 29 * time.Second, 30 * time.Second}
		var out []Step
		for i := 0; i < n; i++ {
			out = append(out, enq())
		}
		for i := 0; i < n; i++ {
			out = append(out, deq(rapid.SampledFrom(ttls).Draw(t, "i.ttl")), Step{Op: "advance", D: rapid.SampledFrom(gaps).Draw(t, "i.gap")})
		}
		for i := rapid.IntRange(2, 5).Draw(t, "i.polls"); i > 0; i-- {
			d := deq(rapid.SampledFrom(ttls).Draw(t, "i.pttl"))
			d.Batch = rapid.SampledFrom([]int{1, 1, 2, 5}).Draw(t, "i.pbatch")
			out = append(out, d, Step{Op: "advance", D: rapid.SampledFrom(gaps).Draw(t, "i.pgap")})
		}
		return out
	case "extended":
		// a lease that is extended, then polls around the original and the
		// extended expiry; the holder settles at the end
		ttl := rapid.SampledFrom([]time.Duration{20 * time.Millisecond, time.Second, 30 * time.Second}).Draw(t, "i.ttl")
		ext := rapid.SampledFrom([]time.Duration{time.Millisecond, 10 * time.Millisecond, time.Second, time.Minute}).Draw(t, "i.ext")
		out := []Step{enq(), deq(ttl), {Op: "advance", D: ttl / 2}, {Op: "extend", LeaseRef: intp(0), Delay: ext}}
		out = append(out, Step{Op: "advance", D: rapid.SampledFrom([]time.Duration{ttl / 2, ttl/2 + ext/2, ttl/2 + ext - 1, ttl/2 + ext}).Draw(t, "i.wait")}, deq(time.Second))
		out = append(out, Step{Op: rapid.SampledFrom([]string{"ack", "nack", "dead", "extend"}).Draw(t, "i.settle"), LeaseRef: intp(rapid.IntRange(0, 1).Draw(t, "i.ref")), Delay: time.Millisecond, Reason: "manual"})
		return out
	case "newer_rows":
		// rows of other states received after whatever exists now
		return []Step{{Op: "advance", D: time.Millisecond}, enq(), enq(), enq()}
	default: // bulk: more messages than the default page (100); the world's own full listing sees at most 1000, so no more than that
		n := rapid.SampledFrom([]int{101, 101, 130, 150, 400}).Draw(t, "i.bulk")
		lim := rapid.SampledFrom([]int{0, 100, 1000, 1001, 5000}).Draw(t, "i.limit")
		st := Step{Op: rapid.SampledFrom([]string{"cancel_f", "requeue_f", "resume_f", "list"}).Draw(t, "i.fop"), Filter: &FilterSpec{Limit: lim, Preview: rapid.Bool().Draw(t, "i.preview")}}
		if st.Op == "list" {
			st.Filter.Preview = false
		}
		return []Step{{Op: "enqueue_batch", Bulk: n, Items: []EnvSpec{{ID: "new", Route: route, Target: target}}}, st}
	}
}

func indexOf(xs []string, x string) int {
	for i, v := range xs {
		if v == x {
			return i
		}
	}
	return 0
}
