package sim

// SysSpec: plain-data description of a hookaido configuration, rendered to
// Hookaidofile text for the node and interpreted independently by the
// reference (SystemModel). The reference never looks at the compiled config.

import (
	"fmt"
	"sort"
	"strings"
	"time"
)

type RateSpec struct {
	RPS   float64 `json:"rps"`
	Burst int     `json:"burst,omitempty"`
}

type KV struct {
	Name  string `json:"name"`
	Value string `json:"value"`
}

type MatchSpec struct {
	Methods      []string `json:"methods,omitempty"`
	Hosts        []string `json:"hosts,omitempty"`
	Headers      []KV     `json:"headers,omitempty"`
	HeaderExists []string `json:"header_exists,omitempty"`
	Query        []KV     `json:"query,omitempty"`
	QueryExists  []string `json:"query_exists,omitempty"`
	RemoteIPs    []string `json:"remote_ips,omitempty"`
}

// NamedMatcherSpec: a top-level "@name { ... }" block. A route attaches it with
// "match @name"; its criteria then count as if written in the route's own
// match block (lists of one criterion are concatenated).
type NamedMatcherSpec struct {
	Name  string    `json:"name"`
	Match MatchSpec `json:"match"`
}

type HMACSpec struct {
	Secrets    []string      `json:"secrets,omitempty"`     // inline raw secrets
	SecretRefs []string      `json:"secret_refs,omitempty"` // ids in Secrets
	SigHeader  string        `json:"sig_header,omitempty"`
	TSHeader   string        `json:"ts_header,omitempty"`
	NonceHdr   string        `json:"nonce_header,omitempty"`
	Tolerance  time.Duration `json:"tolerance,omitempty"`
}

type ForwardSpec struct {
	URL         string        `json:"url"`
	Timeout     time.Duration `json:"timeout,omitempty"`
	CopyHeaders []string      `json:"copy_headers,omitempty"`
}

type RetrySpec struct {
	Max    int           `json:"max"`
	Base   time.Duration `json:"base"`
	Cap    time.Duration `json:"cap"`
	Jitter float64       `json:"jitter"`
}

type SignSpec struct {
	Secret     string   `json:"secret,omitempty"` // inline raw
	SecretRefs []string `json:"secret_refs,omitempty"`
	Selection  string   `json:"selection,omitempty"`
	SigHeader  string   `json:"sig_header,omitempty"`
	TSHeader   string   `json:"ts_header,omitempty"`
}

type DeliverSpec struct {
	URL     string        `json:"url"`
	Timeout time.Duration `json:"timeout,omitempty"`
	Retry   *RetrySpec    `json:"retry,omitempty"`
	Sign    *SignSpec     `json:"sign,omitempty"`
}

type SecretSpec struct {
	ID         string `json:"id"`
	Value      string `json:"value"`
	ValidFrom  int64  `json:"valid_from"`            // seconds relative to Epoch
	ValidUntil *int64 `json:"valid_until,omitempty"` // seconds relative to Epoch
}

type RouteSpec struct {
	Channel     string        `json:"channel,omitempty"` // "" inbound | outbound | internal
	Path        string        `json:"path"`
	Match       *MatchSpec    `json:"match,omitempty"`
	MatchRefs   []string      `json:"match_refs,omitempty"` // named matchers attached with "match @a @b"
	Basic       []KV          `json:"basic,omitempty"`      // user/password
	HMAC        *HMACSpec     `json:"hmac,omitempty"`
	Forward     *ForwardSpec  `json:"forward,omitempty"`
	Rate        *RateSpec     `json:"rate,omitempty"`
	PullPath    string        `json:"pull_path,omitempty"`
	PullTokens  []string      `json:"pull_tokens,omitempty"`
	Deliver     []DeliverSpec `json:"deliver,omitempty"`
	Concurrency int           `json:"concurrency,omitempty"`
	MaxBody     int           `json:"max_body,omitempty"`
	MaxHeaders  int           `json:"max_headers,omitempty"`
	App         string        `json:"app,omitempty"`
	Endpoint    string        `json:"endpoint,omitempty"`
	PublishOff  bool          `json:"publish_off,omitempty"`
	DirectOff   bool          `json:"direct_off,omitempty"`
	ManagedOff  bool          `json:"managed_off,omitempty"`
}

type EgressSpec struct {
	HTTPSOnly *bool    `json:"https_only,omitempty"`
	Redirects *bool    `json:"redirects,omitempty"`
	Rebind    *bool    `json:"rebind,omitempty"`
	Allow     []string `json:"allow,omitempty"`
	Deny      []string `json:"deny,omitempty"`
}

type SysSpec struct {
	Backend        string             `json:"backend"` // memory | sqlite
	PullTokens     []string           `json:"pull_tokens,omitempty"`
	AdminTokens    []string           `json:"admin_tokens,omitempty"`
	IngressRate    *RateSpec          `json:"ingress_rate,omitempty"`
	MaxBody        int                `json:"max_body,omitempty"`
	MaxHeaders     int                `json:"max_headers,omitempty"`
	MaxDepth       int                `json:"max_depth,omitempty"`
	DropPolicy     string             `json:"drop_policy,omitempty"`
	MaxBatch       int                `json:"max_batch,omitempty"`
	DefaultTTL     time.Duration      `json:"default_ttl,omitempty"`
	MaxTTL         time.Duration      `json:"max_ttl,omitempty"`
	Secrets        []SecretSpec       `json:"secrets,omitempty"`
	SecretFracMS   int                `json:"secret_frac_ms,omitempty"` // sub-second part of every secret validity bound
	Egress         *EgressSpec        `json:"egress,omitempty"`
	DefaultRetry   *RetrySpec         `json:"default_retry,omitempty"`
	DefaultTimeout time.Duration      `json:"default_timeout,omitempty"`
	Routes         []RouteSpec        `json:"routes"`
	Matchers       []NamedMatcherSpec `json:"matchers,omitempty"`
	Delivered      time.Duration      `json:"delivered,omitempty"`
	PublishPolicy  []string           `json:"publish_policy,omitempty"` // raw directive lines
	Comment        string             `json:"comment,omitempty"`        // makes two texts differ without changing meaning
}

func q(s string) string { return fmt.Sprintf("%q", s) }

func dur(d time.Duration) string {
	if d%time.Second == 0 {
		return fmt.Sprintf("%ds", int64(d/time.Second))
	}
	return fmt.Sprintf("%dms", int64(d/time.Millisecond))
}

func onoff(b bool) string {
	if b {
		return "on"
	}
	return "off"
}

func ts(rel int64) string {
	return Epoch.Add(time.Duration(rel) * time.Second).UTC().Format(time.RFC3339)
}

// secAt: the instant a secret validity bound stands for - whole seconds relative to Epoch plus the
// configuration's sub-second part (the configuration's timestamps may carry fractions of a second).
func (s *SysSpec) secAt(rel int64) time.Time {
	return Epoch.Add(time.Duration(rel)*time.Second + time.Duration(s.SecretFracMS)*time.Millisecond)
}

func (r RetrySpec) render() string {
	return fmt.Sprintf("retry exponential max %d base %s cap %s jitter %g", r.Max, dur(r.Base), dur(r.Cap), r.Jitter)
}

// Render produces the Hookaidofile text.
func (s *SysSpec) Render() string {
	var b strings.Builder
	w := func(format string, a ...any) { fmt.Fprintf(&b, format+"\n", a...) }
	if s.Comment != "" {
		w("# %s", s.Comment)
	}
	w("ingress {")
	w("  listen 127.0.0.1:0")
	if s.IngressRate != nil {
		w("  rate_limit {")
		w("    rps %g", s.IngressRate.RPS)
		if s.IngressRate.Burst > 0 {
			w("    burst %d", s.IngressRate.Burst)
		}
		w("  }")
	}
	w("}")
	hasPull := false
	for _, r := range s.Routes {
		if r.PullPath != "" {
			hasPull = true
		}
	}
	if hasPull || len(s.PullTokens) > 0 {
		w("pull_api {")
		w("  listen 127.0.0.2:0")
		for _, t := range s.PullTokens {
			w("  auth token %s", q("raw:"+t))
		}
		if s.MaxBatch > 0 {
			w("  max_batch %d", s.MaxBatch)
		}
		if s.DefaultTTL > 0 {
			w("  default_lease_ttl %s", dur(s.DefaultTTL))
		}
		if s.MaxTTL > 0 {
			w("  max_lease_ttl %s", dur(s.MaxTTL))
		}
		w("}")
	}
	w("admin_api {")
	w("  listen 127.0.0.3:0")
	for _, t := range s.AdminTokens {
		w("  auth token %s", q("raw:"+t))
	}
	w("}")
	if s.MaxDepth > 0 {
		w("queue_limits {")
		w("  max_depth %d", s.MaxDepth)
		if s.DropPolicy != "" {
			w("  drop_policy %s", s.DropPolicy)
		}
		w("}")
	}
	if s.Delivered > 0 {
		w("delivered_retention {")
		w("  max_age %s", dur(s.Delivered))
		w("}")
	}
	if len(s.Secrets) > 0 {
		w("secrets {")
		for _, sc := range s.Secrets {
			w("  secret %s {", q(sc.ID))
			w("    value %s", q("raw:"+sc.Value))
			w("    valid_from %s", q(s.secAt(sc.ValidFrom).UTC().Format(time.RFC3339Nano)))
			if sc.ValidUntil != nil {
				w("    valid_until %s", q(s.secAt(*sc.ValidUntil).UTC().Format(time.RFC3339Nano)))
			}
			w("  }")
		}
		w("}")
	}
	if s.MaxBody > 0 || s.MaxHeaders > 0 || s.Egress != nil || s.DefaultRetry != nil || s.DefaultTimeout > 0 || len(s.PublishPolicy) > 0 {
		w("defaults {")
		if s.MaxBody > 0 {
			w("  max_body %d", s.MaxBody)
		}
		if s.MaxHeaders > 0 {
			w("  max_headers %d", s.MaxHeaders)
		}
		if e := s.Egress; e != nil {
			w("  egress {")
			for _, a := range e.Allow {
				w("    allow %s", q(a))
			}
			for _, d := range e.Deny {
				w("    deny %s", q(d))
			}
			if e.HTTPSOnly != nil {
				w("    https_only %s", onoff(*e.HTTPSOnly))
			}
			if e.Redirects != nil {
				w("    redirects %s", onoff(*e.Redirects))
			}
			if e.Rebind != nil {
				w("    dns_rebind_protection %s", onoff(*e.Rebind))
			}
			w("  }")
		}
		if s.DefaultRetry != nil || s.DefaultTimeout > 0 {
			w("  deliver {")
			if s.DefaultRetry != nil {
				w("    %s", s.DefaultRetry.render())
			}
			if s.DefaultTimeout > 0 {
				w("    timeout %s", dur(s.DefaultTimeout))
			}
			w("  }")
		}
		if len(s.PublishPolicy) > 0 {
			w("  publish_policy {")
			for _, l := range s.PublishPolicy {
				w("    %s", l)
			}
			w("  }")
		}
		w("}")
	}
	for _, nm := range s.Matchers {
		w("@%s {", nm.Name)
		matchBody(&nm.Match, "  ", w)
		w("}")
	}
	for _, r := range s.Routes {
		head := q(r.Path)
		if r.Channel != "" {
			head = r.Channel + " " + head
		}
		w("%s {", head)
		if r.App != "" {
			w("  application %s", q(r.App))
			w("  endpoint_name %s", q(r.Endpoint))
		}
		if s.Backend != "" && s.Backend != "sqlite" {
			w("  queue { backend %s }", s.Backend)
		}
		if len(r.MatchRefs) > 0 {
			w("  match @%s", strings.Join(r.MatchRefs, " @"))
		}
		if m := r.Match; m != nil {
			w("  match {")
			matchBody(m, "    ", w)
			w("  }")
		}
		if r.Rate != nil {
			w("  rate_limit {")
			w("    rps %g", r.Rate.RPS)
			if r.Rate.Burst > 0 {
				w("    burst %d", r.Rate.Burst)
			}
			w("  }")
		}
		for _, kv := range r.Basic {
			w("  auth basic %s %s", q(kv.Name), q(kv.Value))
		}
		if h := r.HMAC; h != nil {
			w("  auth hmac {")
			for _, sec := range h.Secrets {
				w("    secret %s", q("raw:"+sec))
			}
			for _, ref := range h.SecretRefs {
				w("    secret_ref %s", q(ref))
			}
			if h.SigHeader != "" {
				w("    signature_header %s", q(h.SigHeader))
			}
			if h.TSHeader != "" {
				w("    timestamp_header %s", q(h.TSHeader))
			}
			if h.NonceHdr != "" {
				w("    nonce_header %s", q(h.NonceHdr))
			}
			if h.Tolerance > 0 {
				w("    tolerance %s", dur(h.Tolerance))
			}
			w("  }")
		}
		if f := r.Forward; f != nil {
			w("  auth forward %s {", q(f.URL))
			if f.Timeout > 0 {
				w("    timeout %s", dur(f.Timeout))
			}
			for _, c := range f.CopyHeaders {
				w("    copy_headers %s", q(c))
			}
			w("  }")
		}
		if r.MaxBody > 0 {
			w("  max_body %d", r.MaxBody)
		}
		if r.MaxHeaders > 0 {
			w("  max_headers %d", r.MaxHeaders)
		}
		if r.PublishOff || r.DirectOff || r.ManagedOff {
			w("  publish {")
			if r.PublishOff {
				w("    enabled off")
			}
			if r.DirectOff {
				w("    direct off")
			}
			if r.ManagedOff {
				w("    managed off")
			}
			w("  }")
		}
		if r.PullPath != "" {
			w("  pull {")
			w("    path %s", q(r.PullPath))
			for _, t := range r.PullTokens {
				w("    auth token %s", q("raw:"+t))
			}
			w("  }")
		}
		if r.Concurrency > 0 {
			w("  deliver_concurrency %d", r.Concurrency)
		}
		for _, d := range r.Deliver {
			w("  deliver %s {", q(d.URL))
			if d.Retry != nil {
				w("    %s", d.Retry.render())
			}
			if d.Timeout > 0 {
				w("    timeout %s", dur(d.Timeout))
			}
			if sg := d.Sign; sg != nil {
				if sg.Secret != "" {
					w("    sign hmac %s", q("raw:"+sg.Secret))
				}
				for _, ref := range sg.SecretRefs {
					w("    sign hmac secret_ref %s", q(ref))
				}
				if sg.Selection != "" {
					w("    sign secret_selection %s", sg.Selection)
				}
				if sg.SigHeader != "" {
					w("    sign signature_header %s", q(sg.SigHeader))
				}
				if sg.TSHeader != "" {
					w("    sign timestamp_header %s", q(sg.TSHeader))
				}
			}
			w("  }")
		}
		w("}")
	}
	return b.String()
}

func matchBody(m *MatchSpec, ind string, w func(string, ...any)) {
	for _, x := range m.Methods {
		w(ind+"method %s", x)
	}
	for _, x := range m.Hosts {
		w(ind+"host %s", q(x))
	}
	for _, x := range m.Headers {
		w(ind+"header %s %s", q(x.Name), q(x.Value))
	}
	for _, x := range m.HeaderExists {
		w(ind+"header_exists %s", q(x))
	}
	for _, x := range m.Query {
		w(ind+"query %s %s", q(x.Name), q(x.Value))
	}
	for _, x := range m.QueryExists {
		w(ind+"query_exists %s", q(x))
	}
	for _, x := range m.RemoteIPs {
		w(ind+"remote_ip %s", q(x))
	}
}

// matchOf: the criteria in force for a route: its own match block followed by
// every attached named matcher, as if all were written in one block. nil: none.
func (s *SysSpec) matchOf(r *RouteSpec) *MatchSpec {
	if len(r.MatchRefs) == 0 {
		return r.Match
	}
	out := &MatchSpec{}
	add := func(m *MatchSpec) {
		out.Methods = append(out.Methods, m.Methods...)
		out.Hosts = append(out.Hosts, m.Hosts...)
		out.Headers = append(out.Headers, m.Headers...)
		out.HeaderExists = append(out.HeaderExists, m.HeaderExists...)
		out.Query = append(out.Query, m.Query...)
		out.QueryExists = append(out.QueryExists, m.QueryExists...)
		out.RemoteIPs = append(out.RemoteIPs, m.RemoteIPs...)
	}
	if r.Match != nil {
		add(r.Match)
	}
	for _, ref := range r.MatchRefs {
		for i := range s.Matchers {
			if s.Matchers[i].Name == ref {
				add(&s.Matchers[i].Match)
			}
		}
	}
	return out
}

func (s *SysSpec) route(path string) *RouteSpec {
	for i := range s.Routes {
		if s.Routes[i].Path == path {
			return &s.Routes[i]
		}
	}
	return nil
}

func sortedCopy(a []string) []string {
	out := append([]string(nil), a...)
	sort.Strings(out)
	return out
}

// sysQConfig: the queue configuration a node built from spec runs with,
// including the documented defaults (docs/configuration.md "Defaults Table").
func sysQConfig(spec *SysSpec) QConfig {
	backend := spec.Backend
	if backend == "" {
		backend = "sqlite"
	}
	c := QConfig{Backend: backend, MaxDepth: 10000, DropPolicy: "reject",
		RetentionMaxAge: 7 * 24 * time.Hour, PruneInterval: 5 * time.Minute,
		DLQMaxAge: 30 * 24 * time.Hour, DLQMaxDepth: 10000, DeliveredMaxAge: spec.Delivered}
	if spec.MaxDepth > 0 {
		c.MaxDepth = spec.MaxDepth
	}
	if spec.DropPolicy != "" {
		c.DropPolicy = spec.DropPolicy
	}
	return c
}
