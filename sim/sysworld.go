package sim

// W-sys: one hookaido node (real runtime state, auth, store, handlers,
// dispatcher) built by app.VerifNewNode from generated Hookaidofile text, with
// simulated clock, scheduler, network and (for SQLite) disk.

import (
	"bufio"
	"bytes"
	"errors"
	"fmt"
	"io"
	"log/slog"
	"math/rand"
	"net/http"
	"net/http/httptest"
	"os"
	"path/filepath"
	"strings"
	"time"

	"github.com/nuetzliches/hookaido/internal/app"
	"github.com/nuetzliches/hookaido/internal/queue"
)

type SysWorld struct {
	Spec  *SysSpec
	Clock *Clock
	Sched *Sched
	Net   *Net
	Node  *app.VerifNode
	Res   *Result

	base    string
	cfgPath string
	dbPath  string
	gen     int
	group   string

	Ingress http.Handler
	Pull    http.Handler
	Admin   http.Handler

	Disk     *Disk
	SimStore *SimStore

	// OnStore lets a world attach observers before any product code sees the store.
	OnStore func(ss *SimStore)

	storeFaults map[string]int // method -> number of calls to fail
	armedStore  map[string]bool
	LogBuf      *bytes.Buffer
	logLevel    slog.Level
	seed        int64
	reqSeq      int
	recs        map[*Task]*simRecorder
	startPush   bool
}

type SysOptions struct {
	OnStore   func(ss *SimStore)
	Seed      int64
	SimDisk   bool // SQLite on the simulated disk (crash worlds)
	StartPush bool // start the push dispatcher (its workers are adopted as tasks); only worlds that schedule them need it
	ArmPoints func(label string) bool
}

var errInjected = errors.New("injected store fault")

func NewSysWorld(spec *SysSpec, offset int64, opts SysOptions) (*SysWorld, error) {
	w := &SysWorld{Spec: spec, Res: &Result{}, storeFaults: map[string]int{}, armedStore: map[string]bool{}, seed: opts.Seed, OnStore: opts.OnStore, startPush: opts.StartPush}
	base, err := ScratchDir("sys-")
	if err != nil {
		return nil, err
	}
	w.base = base
	w.Clock = NewClock(Epoch.Add(time.Duration(offset)))
	w.Clock.Install()
	w.Sched = NewSched()
	w.Sched.Install()
	if opts.ArmPoints != nil {
		w.Sched.SetArmed(opts.ArmPoints)
	}
	w.Net = NewNet(w.Clock)
	w.Net.Park = func(label string) {
		if w.Sched.armed != nil && w.Sched.armed(label) {
			w.Sched.Park(label)
		}
	}
	http.DefaultTransport = w.Net // forward-auth call-outs build their own http.Client
	if opts.SimDisk {
		if err := InstallSimDisk(); err != nil {
			return nil, err
		}
	}
	w.cfgPath = filepath.Join(base, "cfg", "Hookaidofile")
	if err := os.MkdirAll(filepath.Dir(w.cfgPath), 0o755); err != nil {
		return nil, err
	}
	if err := os.WriteFile(w.cfgPath, []byte(spec.Render()), 0o600); err != nil {
		return nil, err
	}
	if err := w.startNode(filepath.Join(base, "db0"), opts.SimDisk); err != nil {
		return nil, err
	}
	return w, nil
}

func (w *SysWorld) startNode(dbDir string, simDisk bool) error {
	w.gen++
	w.group = fmt.Sprintf("node%d", w.gen)
	if err := os.MkdirAll(dbDir, 0o755); err != nil {
		return err
	}
	w.dbPath = filepath.Join(dbDir, "q.db")
	if simDisk {
		w.Disk = NewDisk(dbDir)
	}
	w.LogBuf = &bytes.Buffer{}
	logger := slog.New(slog.NewTextHandler(io.Discard, nil))
	group := w.group
	w.Sched.AdoptGroup = group
	node, err := app.VerifNewNode(app.VerifNodeOptions{
		ConfigPath: w.cfgPath,
		DBPath:     w.dbPath,
		Logger:     logger,
		WrapStore: func(inner queue.Store) queue.Store {
			ss := &SimStore{Inner: inner, Before: func(m string) error { return w.storeBefore(group, m) }, After: func(m string) { w.storeAfter(group, m) }}
			if w.OnStore != nil {
				w.OnStore(ss)
			}
			w.SimStore = ss
			return ss
		},
		HTTPClient:   &http.Client{Transport: w.Net},
		Resolver:     w.Net,
		NoDispatcher: true,
	})
	if err != nil {
		return err
	}
	w.Node = node
	w.Ingress, w.Pull, w.Admin = nil, nil, nil
	for _, s := range node.Servers {
		switch {
		case strings.HasPrefix(s.Addr, "127.0.0.1:"):
			w.Ingress = s.Handler
		case strings.HasPrefix(s.Addr, "127.0.0.2:"):
			w.Pull = s.Handler
		case strings.HasPrefix(s.Addr, "127.0.0.3:"):
			w.Admin = s.Handler
		}
	}
	// Worlds that never let a dispatcher worker run do not start the dispatcher:
	// its goroutines would sit parked for the rest of the process, and every look
	// at goroutine states (blocked-task detection) pays for each of them.
	if node.Push != nil && !w.startPush {
		node.Workers = 0
	}
	if node.Push != nil && w.startPush {
		// jitter draws come from the global math/rand source; re-seed it so that
		// they are a function of the run seed (go:debug randseednop=0 in the test main)
		node.Push.Start()
		rand.Seed(w.seed + int64(w.gen)) //nolint:staticcheck
		if !w.Sched.WaitAdopted(group, node.Workers) {
			return errors.New(w.Sched.Trouble)
		}
	}
	return nil
}

// storeBefore is the P1 point in front of every Store method.
func (w *SysWorld) storeBefore(group, method string) error {
	t := w.Sched.Current()
	route := ""
	if strings.HasPrefix(method, "Dequeue:") {
		route = strings.TrimPrefix(method, "Dequeue:")
		method = "Dequeue"
	}
	if t == nil || t.Daemon {
		// a goroutine the product started itself: a dispatcher worker
		if method == "Dequeue" {
			w.Sched.parkNamed("store.Dequeue.idle", "worker:"+route, true, true)
		} else if w.Sched.IsDead(group) {
			w.Sched.park("store."+method+".dead", true, false)
		} else if w.armedStore[method] {
			w.Sched.Park("store." + method)
		}
	} else if w.Sched.IsDead(group) {
		w.Sched.Park("store." + method + ".dead")
	} else if w.armedStore[method] {
		w.Sched.Park("store." + method)
	}
	if n := w.storeFaults[method]; n > 0 {
		w.storeFaults[method] = n - 1
		w.Res.fault("store.err." + method)
		return errInjected
	}
	return nil
}

func (w *SysWorld) storeAfter(group, method string) {
	if w.Disk != nil && w.Disk.Dead() {
		// the process died inside this call: the task never continues
		w.Sched.MarkDead(group)
		w.Sched.Park("store." + method + ".crashed")
		return
	}
	if w.armedStore[method+".after"] {
		w.Sched.Park("store." + method + ".after")
	}
}

func (w *SysWorld) Close() {
	if w.Node != nil {
		// retire the dispatcher workers: they stay parked for ever (a few KB each)
		w.Sched.MarkDead(w.group)
		if w.Disk != nil {
			w.Disk.Kill()
			w.Disk.Release()
		}
		_ = w.Node.CloseStore()
	}
	UninstallSched()
	if w.base != "" {
		_ = os.RemoveAll(w.base)
	}
}

// Resp is what a simulated client saw.
type Resp struct {
	Status int
	Header http.Header
	Body   []byte
	Lost   bool // the node crashed before the answer was visible
}

// Do runs one request against a handler as a task, alone, to completion.
func (w *SysWorld) Do(name string, h http.Handler, req *http.Request) *Resp {
	t := w.Start(name, h, req)
	k := w.Sched.RunToEnd(t)
	return w.finish(t, k)
}

// Start creates the task for a request without running it (for interleaving).
// simRecorder notes the instant the status line becomes visible to the client:
// an answer that was written before the process died counts as seen.
type simRecorder struct {
	*httptest.ResponseRecorder
	wrote bool
}

func (r *simRecorder) WriteHeader(code int) {
	if !r.wrote {
		r.wrote = true
	}
	r.ResponseRecorder.WriteHeader(code)
}

func (r *simRecorder) Write(b []byte) (int, error) {
	r.wrote = true
	return r.ResponseRecorder.Write(b)
}

func (w *SysWorld) Start(name string, h http.Handler, req *http.Request) *Task {
	w.reqSeq++
	rec := &simRecorder{ResponseRecorder: httptest.NewRecorder()}
	t := w.Sched.Go(fmt.Sprintf("%s#%d", name, w.reqSeq), w.group, func() any {
		if h == nil {
			rec.WriteHeader(599)
			return rec.ResponseRecorder
		}
		h.ServeHTTP(rec, req)
		return rec.ResponseRecorder
	})
	if w.recs == nil {
		w.recs = map[*Task]*simRecorder{}
	}
	w.recs[t] = rec
	return t
}

func (w *SysWorld) finish(t *Task, kind string) *Resp {
	switch kind {
	case "done":
		rec := t.Result.(*httptest.ResponseRecorder)
		return &Resp{Status: rec.Code, Header: rec.Header(), Body: rec.Body.Bytes()}
	case "trouble":
		w.Res.Trouble = w.Sched.Trouble
		return &Resp{Lost: true}
	default: // crashed, or parked dead
		if rec := w.recs[t]; rec != nil && rec.wrote {
			// the status line was out before the process died: the client saw it
			w.Res.probe("crash.after_answer_written")
			return &Resp{Status: rec.Code, Header: rec.Header(), Body: rec.Body.Bytes()}
		}
		return &Resp{Lost: true}
	}
}

// Listing returns the full queue content (directly from the store, not through
// a handler: observation must not depend on what is being checked).
func (w *SysWorld) Listing() ([]queue.Envelope, error) {
	resp, err := w.Node.RawStore.ListMessages(queue.MessageListRequest{Order: queue.MessageOrderAsc, Limit: 1000, IncludePayload: true, IncludeHeaders: true, IncludeTrace: true})
	return resp.Items, err
}

func (w *SysWorld) logf(format string, a ...any) { w.Res.logf(format, a...) }

// NewRequest builds an inbound HTTP request as the listener would hand it to
// the handler (RequestURI parsed by net/http, Host and RemoteAddr set).
func NewRequest(method, rawTarget, host, remote string, headers []KV, body []byte, chunked ...bool) (*http.Request, error) {
	if remote == "" {
		remote = "198.51.100.7:40000"
	}
	if host == "" {
		host = "hooks.example.com"
	}
	var buf bytes.Buffer
	fmt.Fprintf(&buf, "%s %s HTTP/1.1\r\nHost: %s\r\n", method, rawTarget, host)
	for _, kv := range headers {
		fmt.Fprintf(&buf, "%s: %s\r\n", kv.Name, kv.Value)
	}
	if len(chunked) > 0 && chunked[0] {
		// a body of undeclared length (chunked upload): the server learns its
		// size only by reading it
		fmt.Fprintf(&buf, "Transfer-Encoding: chunked\r\n\r\n")
		for off := 0; off < len(body); off += 7 {
			end := off + 7
			if end > len(body) {
				end = len(body)
			}
			fmt.Fprintf(&buf, "%x\r\n", end-off)
			buf.Write(body[off:end])
			buf.WriteString("\r\n")
		}
		buf.WriteString("0\r\n\r\n")
	} else {
		fmt.Fprintf(&buf, "Content-Length: %d\r\n\r\n", len(body))
		buf.Write(body)
	}
	req, err := http.ReadRequest(bufioReader(&buf))
	if err != nil {
		return nil, err
	}
	req.RemoteAddr = remote
	return req, nil
}

func bufioReader(b *bytes.Buffer) *bufio.Reader { return bufio.NewReader(b) }

func writeFile(path string, data []byte) error { return os.WriteFile(path, data, 0o600) }
