package sim

import (
	"sync/atomic"
	"time"

	"github.com/nuetzliches/hookaido/internal/verifhook/verifclock"
)

// Epoch of every simulated run: 2030-01-01T00:00:00Z (+ a per-run offset).
var Epoch = time.Date(2030, 1, 1, 0, 0, 0, 0, time.UTC)

// Clock is the only clock the product reads during a run (via verifclock and
// the public Now seams). It never moves on its own.
type Clock struct {
	ns    atomic.Int64 // nanoseconds since Unix epoch
	reads atomic.Int64
	// tickOnRead, when >0, advances the clock by that many ns on selected
	// reads (fault kind clock.tick_on_read); selection is by read ordinal.
	tickEvery atomic.Int64
	tickBy    atomic.Int64
	ticks     atomic.Int64
	onRead    atomic.Value // func(time.Time)
}

func NewClock(start time.Time) *Clock {
	c := &Clock{}
	c.ns.Store(start.UnixNano())
	return c
}

func (c *Clock) Now() time.Time {
	n := c.reads.Add(1)
	if ev := c.tickEvery.Load(); ev > 0 && n%ev == 0 {
		c.ns.Add(c.tickBy.Load())
		c.ticks.Add(1)
	}
	t := time.Unix(0, c.ns.Load()).UTC()
	if f, _ := c.onRead.Load().(func(time.Time)); f != nil {
		f(t)
	}
	return t
}

// OnRead installs (or, with nil, removes) an observer of product clock reads.
func (c *Clock) OnRead(f func(time.Time)) { c.onRead.Store(f) }

// Peek reads the clock without counting as a product read (harness use).
func (c *Clock) Peek() time.Time { return time.Unix(0, c.ns.Load()).UTC() }

func (c *Clock) Advance(d time.Duration) {
	if d < 0 {
		panic("sim: clock must not go backwards")
	}
	c.ns.Add(int64(d))
}

// StepBack moves the clock backwards (fault kind clock.step_back: an NTP
// correction of the wall clock the stores read).
func (c *Clock) StepBack(d time.Duration) {
	if d > 0 {
		c.ns.Add(-int64(d))
	}
}

func (c *Clock) SetTickOnRead(every int64, by time.Duration) {
	c.tickBy.Store(int64(by))
	c.tickEvery.Store(every)
}

func (c *Clock) Ticks() int64 { return c.ticks.Load() }

// Install makes this clock the source for rewritten product code.
func (c *Clock) Install() { verifclock.Set(c.Now) }

func UninstallClock() { verifclock.Set(nil) }
