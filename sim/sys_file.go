package sim

// W-file: writeFileAtomic (app and mcp) over simfs. Small enough that every
// crash point x every durable/volatile outcome, and every injected errno at
// every call, is enumerated rather than sampled (C18c).

import (
	"bytes"
	"fmt"
	"os"
	"path/filepath"
	"strings"
	"syscall"

	"github.com/nuetzliches/hookaido/internal/app"
	"github.com/nuetzliches/hookaido/internal/mcp"
)

var fileOld = []byte("# old configuration\ningress {\n  listen 127.0.0.1:0\n}\n\"/a\" {\n  pull { path \"/pull/a\" }\n}\n")
var fileNew = []byte("# new configuration, longer than the old one so that a torn write is visible\ningress {\n  listen 127.0.0.1:0\n}\n\"/a\" {\n  pull { path \"/pull/a\" }\n}\n\"/b\" {\n  pull { path \"/pull/b\" }\n}\n")

func fileImpl(name string) func(string, []byte) error {
	switch name {
	case "app":
		return app.VerifWriteFileAtomic
	case "mcp":
		return mcp.VerifWriteFileAtomic
	case "mcp-rollback":
		return func(p string, prev []byte) error { return mcp.VerifRollbackConfigFile(p, true, prev) }
	}
	return nil
}

func errnoByName(s string) error {
	switch s {
	case "EIO":
		return syscall.EIO
	case "ENOSPC":
		return syscall.ENOSPC
	case "EACCES":
		return syscall.EACCES
	}
	return nil
}

// RunFileProgram executes one W-file case: Step{Op:"filecase", Route: impl,
// Reason: "crash"|"EIO"|"ENOSPC"|"EACCES"|"none", Batch: call index, Pad: old file exists}.
func RunFileProgram(p *Program) *Result {
	res := &Result{}
	for _, s := range p.Steps {
		if s.Op != "filecase" {
			res.Trouble = "file world: unknown op " + s.Op
			return res
		}
		runFileCase(res, s)
		if res.Trouble != "" {
			return res
		}
	}
	return res
}

func runFileCase(res *Result, s Step) {
	write := fileImpl(s.Route)
	if write == nil {
		res.Trouble = "unknown impl " + s.Route
		return
	}
	dir, err := ScratchDir("file-")
	if err != nil {
		res.Trouble = err.Error()
		return
	}
	defer os.RemoveAll(dir)
	path := filepath.Join(dir, "conf", "Hookaidofile")
	_ = os.MkdirAll(filepath.Dir(path), 0o755)
	fs := NewSimFS()
	oldExists := s.Pad
	if oldExists {
		if err := os.WriteFile(path, fileOld, 0o640); err != nil {
			res.Trouble = err.Error()
			return
		}
		fs.AddExisting(path, fileOld)
	}
	switch s.Reason {
	case "crash":
		fs.CrashAt = s.Batch
	case "none":
	default:
		fs.FailAt = s.Batch
		fs.FailErr = errnoByName(s.Reason)
	}
	fs.Install()
	werr := write(path, fileNew)
	UninstallSimFS()
	res.Ops++
	res.logf("%s writeFileAtomic(%s) old_exists=%v fault=%s@%d -> err=%v (%d calls)", s.Route, filepath.Base(path), oldExists, s.Reason, s.Batch, werr, fs.Calls)
	for _, tl := range fs.Trace {
		res.logf("  %s", strings.ReplaceAll(tl, dir, ""))
	}
	loc := "file/" + s.Route + "/" + s.Reason
	legal := func(st ImageState) bool {
		if !st.Exists {
			return !oldExists // before the first write there was no file
		}
		return bytes.Equal(st.Content, fileNew) || (oldExists && bytes.Equal(st.Content, fileOld))
	}
	check := func(st ImageState, when string) {
		res.probe("file.image")
		if !legal(st) {
			v := viol("C18.file.partial", "C18", "%s: after %s (%s) the config path holds neither the complete old nor the complete new content: exists=%v %d bytes %q", s.Route, when, st.How, st.Exists, len(st.Content), truncS(st.Content, 40))
			v.Loc = loc
			res.Violations = append(res.Violations, v)
			res.logf("  VIOLATION %s", v.String())
		}
	}
	switch s.Reason {
	case "crash":
		if fs.Dead {
			res.fault("cfgfile.crash")
			check(fs.KillState(path), fmt.Sprintf("a kill before call #%d", s.Batch))
			for _, st := range fs.Images(path) {
				check(st, fmt.Sprintf("a power loss before call #%d", s.Batch))
			}
		}
	case "none":
		if werr != nil {
			res.Trouble = "fault-free write failed: " + werr.Error()
			return
		}
		b, _ := os.ReadFile(path)
		if !bytes.Equal(b, fileNew) {
			v := viol("C18.file.notwritten", "C18", "%s: writeFileAtomic returned nil but the file holds %d bytes", s.Route, len(b))
			v.Loc = loc
			res.Violations = append(res.Violations, v)
		}
		for _, st := range fs.Images(path) {
			check(st, "a power loss right after the successful return")
		}
		// confinement: only the target and its temp sibling are touched
		for _, pth := range sortedPaths(fs.Paths) {
			if filepath.Dir(pth) != filepath.Dir(path) && pth != filepath.Dir(path) {
				v := viol("C20.file.confinement", "C20,C18", "%s: writeFileAtomic touched %s outside the config directory", s.Route, pth)
				v.Loc = loc
				res.Violations = append(res.Violations, v)
			}
		}
	default:
		if fs.Calls > s.Batch {
			res.fault("cfgfile." + strings.ToLower(s.Reason))
		}
		// after the (failed or not) return: the real file, and any power loss now
		b, rerr := os.ReadFile(path)
		check(ImageState{Exists: rerr == nil, Content: b, How: "return value " + fmt.Sprint(werr)}, fmt.Sprintf("%s injected at call #%d", s.Reason, s.Batch))
		for _, st := range fs.Images(path) {
			check(st, fmt.Sprintf("a power loss after %s at call #%d", s.Reason, s.Batch))
		}
		// a write that reported failure has cleaned up after itself: nothing but the config file is left in
		// its directory (unless the error hit the very call that removes the temporary file)
		if werr != nil && fs.FailedOp != "" && fs.FailedOp != "remove" {
			if ents, err := os.ReadDir(filepath.Dir(path)); err == nil {
				for _, e := range ents {
					if e.Name() != filepath.Base(path) {
						v := viol("C20.file.stray", "C20,C18", "%s: a write that failed (%s at call #%d, %s) left %q in the config directory", s.Route, s.Reason, s.Batch, fs.FailedOp, strings.SplitN(e.Name(), ".tmp-", 2)[0]+".tmp-*")
						v.Loc = loc
						res.Violations = append(res.Violations, v)
					}
				}
			}
		}
	}
}

func truncS(b []byte, n int) string {
	if len(b) > n {
		return string(b[:n]) + "..."
	}
	return string(b)
}

// EnumFileCases lists the complete W-file case space.
func EnumFileCases() []*Program {
	var out []*Program
	for _, impl := range []string{"app", "mcp", "mcp-rollback"} {
		for _, oldExists := range []bool{true, false} {
			if impl == "mcp-rollback" && !oldExists {
				continue
			}
			// count the calls of a fault-free run
			probe := &Program{World: "file", Steps: []Step{{Op: "filecase", Route: impl, Reason: "none", Pad: oldExists}}}
			out = append(out, probe)
			n := 14 // upper bound; cases beyond the last call are no-ops
			for k := 0; k <= n; k++ {
				out = append(out, &Program{World: "file", Steps: []Step{{Op: "filecase", Route: impl, Reason: "crash", Batch: k, Pad: oldExists}}})
				for _, e := range []string{"EIO", "ENOSPC", "EACCES"} {
					out = append(out, &Program{World: "file", Steps: []Step{{Op: "filecase", Route: impl, Reason: e, Batch: k, Pad: oldExists}}})
				}
			}
		}
	}
	return out
}

func init() {
	Register(&CheckSpec{
		Prop: "C18", World: "file",
		Gen:        nil,
		Run:        RunFileProgram,
		Enum:       EnumFileCases,
		Level:      "fault_enumeration",
		NonTrivial: func(p *Program, r *Result) bool { return r.Probes["file.image"] > 0 },
		Rule:       "W-file, exhaustive: writeFileAtomic of app and mcp (and mcp rollbackConfigFile), with and without a previous file: a crash before every verifos call x every post-crash image (kill; power loss with any prefix of unsynced directory operations, unsynced file data old/new/torn), and EIO/ENOSPC/EACCES injected at every call; oracle: the config path holds exactly the complete old or the complete new bytes, and a write that reported failure leaves no other file in the directory; distinct = (implementation, fault kind, call index, previous-file) cases that produced at least one image",
		RealStub: map[string]string{
			"app.writeFileAtomic/syncDir, mcp.writeFileAtomic/syncDir/rollbackConfigFile": "real (os calls rerouted to verifos by the check-time rewrite)",
			"file system durability": "simulated (simfs journal: data volatile until File.Sync, directory entries volatile until the directory is synced)",
		},
		Quick: 1, Thorough: 1,
	})
	Register(&CheckSpec{
		Prop: "C20", World: "file",
		Gen:        nil,
		Run:        RunFileProgram,
		Enum:       EnumFileCases,
		Level:      "other",
		NonTrivial: func(p *Program, r *Result) bool { return r.Probes["file.image"] > 0 },
		Rule:       "W-file, exhaustive (the config-writing primitive of the MCP tools and of the management API): EIO/ENOSPC/EACCES injected at every file-system call and a crash before every call; confinement: only the configured path and its temporary sibling in the same directory are ever touched, and a write that reported failure leaves nothing but the config file in that directory (unless the error hit the call that removes the temporary file)",
		RealStub: map[string]string{
			"app.writeFileAtomic/syncDir, mcp.writeFileAtomic/syncDir/rollbackConfigFile": "real (os calls rerouted to verifos by the check-time rewrite)",
			"file system durability": "simulated (simfs journal)",
		},
		Quick: 1, Thorough: 1,
	})
}
